// Plain replays (public API only, no explorer) of the findings F1-F3 of /verif/known_findings.json.
