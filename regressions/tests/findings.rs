//! Plain unit-test replays of the three defects found by the model checker (see /verif/DESIGN.md section 5).
//! Each test fails on the tree before its `fix:` commit and passes after it.

use std::cell::{Cell, RefCell};
use std::panic::{catch_unwind, AssertUnwindSafe};

use rust_cc::config::config;
use rust_cc::weak::Weak;
use rust_cc::*;

thread_local! {
    static TRACE_CALLS: Cell<u32> = const { Cell::new(0) };
    static PANIC_AT_TRACE: Cell<u32> = const { Cell::new(u32::MAX) };
    static FINALIZED_WHILE_HELD: Cell<u32> = const { Cell::new(0) };
    static DROPS: Cell<u32> = const { Cell::new(0) };
    static TRACED_OUTSIDE_TRACING: Cell<u32> = const { Cell::new(0) };
}

struct Node {
    held: Cell<bool>,
    collect_in_finalizer: bool,
    c0: RefCell<Option<Cc<Node>>>,
}

fn node() -> Cc<Node> {
    Cc::new(Node { held: Cell::new(false), collect_in_finalizer: false, c0: RefCell::new(None) })
}

unsafe impl Trace for Node {
    fn trace(&self, ctx: &mut Context<'_>) {
        if !state::is_tracing().unwrap() {
            TRACED_OUTSIDE_TRACING.with(|c| c.set(c.get() + 1));
        }
        let n = TRACE_CALLS.with(|c| {
            c.set(c.get() + 1);
            c.get()
        });
        self.c0.trace(ctx);
        if n == PANIC_AT_TRACE.with(|c| c.get()) {
            panic!("injected trace panic");
        }
    }
}

impl Finalize for Node {
    fn finalize(&self) {
        if self.held.get() {
            FINALIZED_WHILE_HELD.with(|c| c.set(c.get() + 1));
        }
        if self.collect_in_finalizer {
            collect_cycles();
        }
    }
}

impl Drop for Node {
    fn drop(&mut self) {
        DROPS.with(|c| c.set(c.get() + 1));
    }
}

/// F1 (C07): a panic in Trace::trace during the counting phase must not leave stale tracing counters behind.
/// History found by the explorer: New(v0); New(v1); Dup(v0->v2); Store(v1.c0<-v0); Store(v2.c0<-v1); Drop(v2);
/// Collect[panic at the 8th crash point]; Collect.
#[test]
fn f1_trace_panic_leaves_no_stale_tracing_counter() {
    let _ = config(|c| c.set_auto_collect(false));
    for panic_at in 1..=8u32 {
        TRACE_CALLS.with(|c| c.set(0));
        let a = node();
        let b = node();
        let a2 = a.clone();
        *b.c0.borrow_mut() = Some(a); // b -> a
        *a2.c0.borrow_mut() = Some(b); // a -> b
        drop(a2); // the cycle is garbage, a is buffered
        PANIC_AT_TRACE.with(|c| c.set(panic_at));
        let r = catch_unwind(AssertUnwindSafe(collect_cycles));
        PANIC_AT_TRACE.with(|c| c.set(u32::MAX));
        let _ = r;
        assert!(!state::is_tracing().unwrap());
        // the next, fault-free collection must neither panic (debug assertion on the counters) nor misbehave
        collect_cycles();
        collect_cycles();
    }
}

/// F3 (C12): a collection started from a finalizer run by a plain Cc::drop must report is_tracing() == true
/// inside its Trace::trace calls. History: New(v0); Dup(v0->v1); SetFin(v0,Collect); Drop(v0); Drop(v1).
#[test]
fn f3_collection_started_from_rc_finalizer_is_observable() {
    let _ = config(|c| c.set_auto_collect(false));
    TRACED_OUTSIDE_TRACING.with(|c| c.set(0));
    let other = node();
    let other2 = other.clone();
    drop(other2); // `other` is buffered: the nested collection has something to trace
    let x = Cc::new(Node { held: Cell::new(false), collect_in_finalizer: true, c0: RefCell::new(None) });
    drop(x); // last owner: finalizer runs inside Cc::drop and calls collect_cycles()
    assert_eq!(0, TRACED_OUTSIDE_TRACING.with(|c| c.get()), "Trace::trace was called while is_tracing() returned false");
    drop(other);
}

struct Probe {
    canary: u64,
}
unsafe impl Trace for Probe {
    fn trace(&self, _: &mut Context<'_>) {}
}
impl Finalize for Probe {}
thread_local! { static BAD_PROBE_DROPS: Cell<u32> = const { Cell::new(0) }; static PROBE_DROPS: Cell<u32> = const { Cell::new(0) }; }
impl Drop for Probe {
    fn drop(&mut self) {
        PROBE_DROPS.with(|c| c.set(c.get() + 1));
        if self.canary != 0xFEED_BEEF {
            BAD_PROBE_DROPS.with(|c| c.set(c.get() + 1));
        }
    }
}

/// F2 (C14): if the collection automatically started by new_cyclic panics, no value of T may be dropped.
/// History: NewCyclic(v0,SaveWeakToW0); NewCyclic(v1,Nop)[panic in the trace of the buffered first object].
#[test]
fn f2_new_cyclic_with_panicking_automatic_collection_touches_no_value() {
    let _ = config(|c| {
        c.set_auto_collect(true);
        c.set_buffered_objects_threshold(std::num::NonZeroUsize::new(1));
    });
    TRACE_CALLS.with(|c| c.set(0));
    // two buffered objects so that the buffered threshold (1) is exceeded
    let a = node();
    let b = node();
    drop(a.clone());
    drop(b.clone());
    PROBE_DROPS.with(|c| c.set(0));
    PANIC_AT_TRACE.with(|c| c.set(1));
    let mut closure_ran = false;
    let r = catch_unwind(AssertUnwindSafe(|| {
        Cc::new_cyclic(|_w: &Weak<Probe>| {
            closure_ran = true;
            Probe { canary: 0xFEED_BEEF }
        })
    }));
    PANIC_AT_TRACE.with(|c| c.set(u32::MAX));
    let _ = config(|c| {
        c.set_auto_collect(false);
        c.set_buffered_objects_threshold(None);
    });
    if r.is_err() {
        assert!(!closure_ran);
        assert_eq!(0, PROBE_DROPS.with(|c| c.get()), "a Probe was dropped although none was ever constructed");
    }
    assert_eq!(0, BAD_PROBE_DROPS.with(|c| c.get()));
    drop(a);
    drop(b);
    let _ = FINALIZED_WHILE_HELD.with(|c| c.get());
    let _ = DROPS.with(|c| c.get());
}

// ---- F4 (C10): re-entrant use of a Cleaner from inside one of its own cleaning actions --------------------------

use rust_cc::cleaners::{Cleanable, Cleaner};
use std::rc::Rc;

struct Owner {
    cleaner: Cleaner,
}

unsafe impl Trace for Owner {
    fn trace(&self, _: &mut Context<'_>) {}
}

impl Finalize for Owner {}

#[test]
fn f4_cleaning_actions_reentering_their_own_cleaner() {
    let _ = config(|c| c.set_auto_collect(false));

    // (a) an action calls clean() on a sibling Cleanable of the same Cleaner: the sibling's action runs at that
    //     first call, and exactly once overall
    {
        let owner = Cc::new(Owner { cleaner: Cleaner::new() });
        let sibling_runs = Rc::new(Cell::new(0u32));
        let sibling: Rc<RefCell<Option<Cleanable>>> = Rc::new(RefCell::new(None));
        let seen_inside = Rc::new(Cell::new(u32::MAX));
        let (sr, sb, si) = (sibling_runs.clone(), sibling.clone(), seen_inside.clone());
        let first = owner.cleaner.register(move || {
            if let Some(s) = sb.borrow().as_ref() {
                s.clean();
            }
            si.set(sr.get());
        });
        let sr2 = sibling_runs.clone();
        *sibling.borrow_mut() = Some(owner.cleaner.register(move || sr2.set(sr2.get() + 1)));
        first.clean();
        assert_eq!(1, seen_inside.get(), "clean() called from inside a sibling action did not run the action");
        sibling.borrow().as_ref().unwrap().clean();
        assert_eq!(1, sibling_runs.get());
        drop(owner);
        assert_eq!(1, sibling_runs.get());
    }

    // (b) an action run by clean() releases the last Cc of the Cleaner's owner: the remaining actions have run by the
    //     time the drop of the owner (hence of the Cleaner) returns, i.e. still inside the releasing action
    {
        let owner = Cc::new(Owner { cleaner: Cleaner::new() });
        let other_runs = Rc::new(Cell::new(0u32));
        let seen_after_owner_drop = Rc::new(Cell::new(u32::MAX));
        let slot: Rc<RefCell<Option<Cc<Owner>>>> = Rc::new(RefCell::new(None));
        let (or1, sl, sa) = (other_runs.clone(), slot.clone(), seen_after_owner_drop.clone());
        let releasing = owner.cleaner.register(move || {
            let last = sl.borrow_mut().take();
            drop(last); // drops the owner and its Cleaner
            sa.set(or1.get());
        });
        let or2 = other_runs.clone();
        let _other = owner.cleaner.register(move || or2.set(or2.get() + 1));
        *slot.borrow_mut() = Some(owner);
        releasing.clean();
        assert_eq!(1, seen_after_owner_drop.get(), "the Cleaner's drop returned before its remaining action had run");
        assert_eq!(1, other_runs.get());
    }
}

// ---- F5 (C10): register() nested inside register() on the same Cleaner (through the automatic collection that the
// lazily allocated action map can trigger) ---------------------------------------------------------------------------

struct RegistersInFinalizer {
    me: RefCell<Option<Cc<RegistersInFinalizer>>>,
    owner: Cc<Owner>,
    ran: Rc<Cell<u32>>,
    out: Rc<RefCell<Vec<Cleanable>>>,
}

unsafe impl Trace for RegistersInFinalizer {
    fn trace(&self, ctx: &mut Context<'_>) {
        self.me.trace(ctx);
        self.owner.trace(ctx);
    }
}

impl Finalize for RegistersInFinalizer {
    fn finalize(&self) {
        let ran = self.ran.clone();
        let c = self.owner.cleaner.register(move || ran.set(ran.get() + 1));
        self.out.borrow_mut().push(c);
    }
}

#[test]
fn f5_register_nested_in_register_through_an_automatic_collection() {
    std::thread::spawn(|| {
        let _ = config(|c| {
            c.set_auto_collect(false);
            c.set_buffered_objects_threshold(std::num::NonZeroUsize::new(1));
        });
        let owner = Cc::new(Owner { cleaner: Cleaner::new() });
        let nested_runs = Rc::new(Cell::new(0u32));
        let out = Rc::new(RefCell::new(Vec::new()));
        // two pieces of buffered garbage whose finalizers register an action on `owner`'s Cleaner
        for _ in 0..2 {
            let g = Cc::new(RegistersInFinalizer { me: RefCell::new(None), owner: owner.clone(), ran: nested_runs.clone(), out: out.clone() });
            *g.me.borrow_mut() = Some(g.clone());
        }
        let _ = config(|c| c.set_auto_collect(true));
        let outer_runs = Rc::new(Cell::new(0u32));
        let o = outer_runs.clone();
        // the first register() allocates the action map with Cc::new, which starts the collection
        let _outer = owner.cleaner.register(move || o.set(o.get() + 1));
        assert_eq!(2, out.borrow().len(), "the finalizers did not run inside register()");
        assert_eq!(0, nested_runs.get(), "an action registered from a finalizer ran although neither clean() was called nor the Cleaner dropped");
        assert_eq!(0, outer_runs.get());
        drop(owner);
        collect_cycles();
        assert_eq!((1, 2), (outer_runs.get(), nested_runs.get()));
    })
    .join()
    .unwrap();
}
