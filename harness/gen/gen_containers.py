#!/usr/bin/env python3
"""Generates harness/src/containers_gen.rs: one payload type per (container kind, position) whose traced link
lives at that position of that std container. The mini explorer then enumerates all histories over each type:
a skipped position shows as an unreclaimed cycle, a doubly reported one as a premature drop."""
import sys

out = []
cases = []  # (label, typename, quick)


def emit(name, label, field_ty, make_expr, slot_expr, quick, drop_extra=""):
    out.append(f"""
pub struct {name} {{
    id: u8,
    c: {field_ty},
}}
unsafe impl Trace for {name} {{
    fn trace(&self, ctx: &mut Context<'_>) {{
        self.c.trace(ctx);
    }}
}}
impl Finalize for {name} {{
    fn finalize(&self) {{
        mini::on_finalize(self as *const Self as usize);
    }}
}}
impl Drop for {name} {{
    fn drop(&mut self) {{
        mini::on_drop(self as *const Self as usize);{drop_extra}
    }}
}}
impl MiniPayload for {name} {{
    const NAME: &'static str = "{label}";
    const HAS_ID: bool = true;
    fn make(id: u8) -> Self {{
        {name} {{ id, c: {make_expr} }}
    }}
    #[allow(clippy::all)]
    fn slot(&self) -> Option<&RefCell<Option<Cc<Self>>>> {{
        Some({slot_expr})
    }}
    fn intact(&self, id: u8) -> bool {{
        self.id == id
    }}
}}
""")
    cases.append((label, name, quick))


L = "RefCell<Option<Cc<Self>>>"
NEW = "RefCell::new(None)"


def selfify(ty, name):
    return ty.replace("Self", name)


# tuples: arity n, position p (all other positions are empty links too, so every position is traced)
for n in range(1, 13):
    for p in range(n):
        name = f"Tup{n}P{p}"
        ty = "(" + ", ".join([selfify(L, name)] * n) + ("," if n == 1 else "") + ")"
        mk = "(" + ", ".join([NEW] * n) + ("," if n == 1 else "") + ")"
        emit(name, f"tuple arity {n} position {p}", ty, mk, f"&self.c.{p}", quick=(n in (1, 2, 12) and p in (0, n - 1)) or (n == 7 and p == 3))

# arrays
for n in [1, 2, 3, 8, 31, 32]:
    for p in sorted(set([0, n // 2, n - 1])):
        name = f"Arr{n}P{p}"
        emit(name, f"array length {n} position {p}", f"[{selfify(L, name)}; {n}]", f"std::array::from_fn(|_| {NEW})", f"&self.c[{p}]", quick=(n in (1, 32) and p in (0, n - 1)))

# Vec and boxed slices
for n in [1, 2, 5, 8]:
    for p in sorted(set([0, n // 2, n - 1])):
        name = f"Vec{n}P{p}"
        emit(name, f"Vec length {n} position {p}", f"Vec<{selfify(L, name)}>", f"(0..{n}).map(|_| {NEW}).collect()", f"&self.c[{p}]", quick=(n == 5 and p == 4) or (n == 1))
        name = f"Slice{n}P{p}"
        emit(name, f"Box<[T]> length {n} position {p}", f"Box<[{selfify(L, name)}]>", f"(0..{n}).map(|_| {NEW}).collect::<Vec<_>>().into_boxed_slice()", f"&self.c[{p}]", quick=(n == 2 and p == 1))

singles = [
    ("BoxOf", "Box<T>", "Box<{L}>", "Box::new({NEW})", "&*self.c", True),
    ("OptSome", "Option<T> (Some)", "Option<{L}>", "Some({NEW})", "self.c.as_ref().unwrap()", True),
    ("ResOk", "Result<T, ()> (Ok)", "Result<{L}, ()>", "Ok({NEW})", "self.c.as_ref().ok().unwrap()", True),
    ("ResErr", "Result<(), T> (Err)", "Result<(), {L}>", "Err({NEW})", "self.c.as_ref().err().unwrap()", True),
    ("CellOf", "RefCell<T>", "RefCell<{L}>", "RefCell::new({NEW})", "unsafe { &*self.c.as_ptr() }", True),
    ("AusOf", "AssertUnwindSafe<T>", "std::panic::AssertUnwindSafe<{L}>", "std::panic::AssertUnwindSafe({NEW})", "&self.c.0", True),
    # two-level nestings
    ("OptBox", "Option<Box<T>>", "Option<Box<{L}>>", "Some(Box::new({NEW}))", "&**self.c.as_ref().unwrap()", False),
    ("BoxOpt", "Box<Option<T>>", "Box<Option<{L}>>", "Box::new(Some({NEW}))", "(*self.c).as_ref().unwrap()", False),
    ("VecOpt", "Vec<Option<T>> position 1", "Vec<Option<{L}>>", "vec![None, Some({NEW}), None]", "self.c[1].as_ref().unwrap()", True),
    ("BoxArr", "Box<[T; 2]> position 1", "Box<[{L}; 2]>", "Box::new([{NEW}, {NEW}])", "&self.c[1]", False),
    ("TupVec", "(Vec<T>, u8) position 0.2", "(Vec<{L}>, u8)", "(vec![{NEW}, {NEW}, {NEW}], 7)", "&self.c.0[2]", True),
    ("CellVec", "RefCell<Vec<T>> position 1", "RefCell<Vec<{L}>>", "RefCell::new(vec![{NEW}, {NEW}])", "unsafe { &(&(*self.c.as_ptr()))[1] }", False),
    ("ResBox", "Result<Box<T>, ()>", "Result<Box<{L}>, ()>", "Ok(Box::new({NEW}))", "&**self.c.as_ref().ok().unwrap()", False),
    ("ArrOpt", "[Option<T>; 2] position 1", "[Option<{L}>; 2]", "[None, Some({NEW})]", "self.c[1].as_ref().unwrap()", False),
    ("BoxTup", "Box<(u8, T)>", "Box<(u8, {L})>", "Box::new((3, {NEW}))", "&self.c.1", False),
    ("OptRes", "Option<Result<(), T>>", "Option<Result<(), {L}>>", "Some(Err({NEW}))", "self.c.as_ref().unwrap().as_ref().err().unwrap()", False),
    ("VecVec", "Vec<Vec<T>> position 1.0", "Vec<Vec<{L}>>", "vec![vec![], vec![{NEW}]]", "&self.c[1][0]", False),
    ("TupTup", "((T, u8), (u8, T)) position 1.1", "(({L}, u8), (u8, {L}))", "(({NEW}, 0), (0, {NEW}))", "&(self.c.1).1", False),
    ("AusBox", "AssertUnwindSafe<Box<T>>", "std::panic::AssertUnwindSafe<Box<{L}>>", "std::panic::AssertUnwindSafe(Box::new({NEW}))", "&*self.c.0", False),
    ("CellOpt", "RefCell<Option<Box<T>>>", "RefCell<Option<Box<{L}>>>", "RefCell::new(Some(Box::new({NEW})))", "unsafe { &**(*self.c.as_ptr()).as_ref().unwrap() }", False),
]
for (name, label, ty, mk, slot, quick) in singles:
    emit(name, label, selfify(ty.replace("{L}", L), name), mk.replace("{NEW}", NEW), slot, quick)

# ManuallyDrop (alone and inside sequences: an element type without drop glue that still owns a Cc). The payload's own
# Drop releases the content by hand, so the ownership semantics are those of the plain container.
MD = "std::mem::ManuallyDrop"
md_cases = [
    ("MdOf", "ManuallyDrop<T>", f"{MD}<{{L}}>", f"{MD}::new({{NEW}})", "&*self.c", True,
     "\n        unsafe { std::mem::ManuallyDrop::drop(&mut self.c) }"),
    ("VecMd", "Vec<ManuallyDrop<T>> position 1", f"Vec<{MD}<{{L}}>>", f"vec![{MD}::new({{NEW}}), {MD}::new({{NEW}})]", "&*self.c[1]", True,
     "\n        for e in self.c.iter_mut() { unsafe { std::mem::ManuallyDrop::drop(e) } }"),
    ("ArrMd", "[ManuallyDrop<T>; 2] position 0", f"[{MD}<{{L}}>; 2]", f"[{MD}::new({{NEW}}), {MD}::new({{NEW}})]", "&*self.c[0]", True,
     "\n        for e in self.c.iter_mut() { unsafe { std::mem::ManuallyDrop::drop(e) } }"),
    ("SliceOptTupMd", "Box<[Option<(u32, ManuallyDrop<T>)>]> position 1", f"Box<[Option<(u32, {MD}<{{L}}>)>]>", f"vec![None, Some((7u32, {MD}::new({{NEW}})))].into_boxed_slice()", "&*self.c[1].as_ref().unwrap().1", False,
     "\n        for e in self.c.iter_mut().flatten() { unsafe { std::mem::ManuallyDrop::drop(&mut e.1) } }"),
    ("MdVec", "ManuallyDrop<Vec<T>> position 0", f"{MD}<Vec<{{L}}>>", f"{MD}::new(vec![{{NEW}}])", "&self.c[0]", False,
     "\n        unsafe { std::mem::ManuallyDrop::drop(&mut self.c) }"),
]
for (name, label, ty, mk, slot, quick, de) in md_cases:
    emit(name, label, selfify(ty.replace("{L}", L), name), mk.replace("{NEW}", NEW), slot, quick, de)

hdr = """// GENERATED by harness/gen/gen_containers.py - do not edit.
#![allow(clippy::type_complexity)]
use std::cell::RefCell;

use rust_cc::{Cc, Context, Finalize, Trace};

use crate::mini::{self, MiniPayload, Typed, TypedWorld};

fn mk<P: MiniPayload>() -> Box<dyn TypedWorld> {
    Box::new(Typed::<P>::new())
}
"""
reg = "\npub fn cases() -> Vec<(&'static str, bool, fn() -> Box<dyn TypedWorld>)> {\n    vec![\n"
for (label, name, quick) in cases:
    reg += f"        (\"{label}\", {'true' if quick else 'false'}, mk::<{name}>),\n"
reg += "    ]\n}\n"
open(sys.argv[1], "w").write(hdr + "".join(out) + reg)
print(len(cases), "container position types,", sum(1 for c in cases if c[2]), "in the quick set")
