//! Operation alphabet of the explorer. An `Op` is a public-API call on the real crate (or a pure ownership
//! move done by the harness), optionally with a fault injected at its k-th callback crash point.

use std::fmt;

pub const T: usize = 2; // traced cells per node
pub const S: usize = 3; // cells per node (index T = untraced cell)
pub const MAXV: usize = 4;
pub const MAXW: usize = 3;
pub const MAXC: usize = 6;
pub const MAXOBJ: usize = 8;

#[derive(Clone, Copy, PartialEq, Eq, Hash, Debug, PartialOrd, Ord)]
#[repr(u8)]
pub enum Code {
    New = 0,        // a = dst var
    Dup,            // a = src var, b = dst var
    Drop,           // a = var
    Load,           // a = owner var, b = cell, c = dst var      (clone of a field)
    Store,          // a = owner var, b = cell, c = src var      (move var into empty field)
    Take,           // a = owner var, b = cell, c = dst var      (move field into empty var)
    MarkAlive,      // a = var
    Collect,        //
    CollectHolding, // a = owner var, b = cell                   (collect while cell is mutably borrowed)
    TakeG,          // a = dst var                               (move G into empty var)
    DropG,          //
    SetFin,         // a = var, b = script
    SetDrop,        // a = var, b = script
    FinalizeAgain,  // a = var
    Downgrade,      // a = var, b = dst wvar
    Upgrade,        // a = wvar, b = dst var
    DupWeak,        // a = wvar, b = dst wvar
    DropWeak,       // a = wvar
    StoreWeak,      // a = owner var, b = src wvar               (move weak into empty wcell)
    TakeWeak,       // a = owner var, b = dst wvar               (move wcell into empty wvar)
    WeakNew,        // a = dst wvar
    TryUnwrap,      // a = var
    NewCyclic,      // a = dst var, b = closure script
    Register,       // a = owner var, b = action kind, c = dst cvar (captures var MAXV-1.. see exec)
    Clean,          // a = cvar
    DropCleanable,  // a = cvar
    SetAuto,        // a = 0/1
    SetBufThr,      // a = 0 (None) / n
    FillStrong,     // a = var, b = k  (park clones until strong count = MAX - k)
    FillWeak,       // a = var, b = k
    DropStash,      //
    CloneExpectPanic, // a = var (clone at saturation)
    DowngradeExpectPanic, // a = var
    UpgradeExpectPanic, // a = wvar
    DupWeakExpectPanic, // a = wvar
    PutG,           // a = src var                               (move var into empty G)
    FillBag,        // a = var, b = k  (park self-clones in the object's own traced bag until strong count = MAX - k)
    NewOwning,      // a = dst var, b = src var   (Cc::new of a value whose cell 0 already owns the handle moved out of src)
}

pub const NCODES: u8 = Code::NewOwning as u8 + 1;

#[derive(Clone, Copy, PartialEq, Eq, Hash, PartialOrd, Ord)]
pub struct Op {
    pub code: Code,
    pub a: u8,
    pub b: u8,
    pub c: u8,
    /// Crash point (0-based, counted over all callback crash points passed by this operation) at which
    /// the callback panics; `NO_FAULT` for none.
    pub fault: u16,
}

pub const NO_FAULT: u16 = u16::MAX;

impl Op {
    pub const fn new(code: Code, a: u8, b: u8, c: u8) -> Op {
        Op { code, a, b, c, fault: NO_FAULT }
    }
    pub fn with_fault(mut self, k: u16) -> Op {
        self.fault = k;
        self
    }
    pub fn encode(&self) -> String {
        format!("{}.{}.{}.{}.{}", self.code as u8, self.a, self.b, self.c, self.fault)
    }
    pub fn decode(s: &str) -> Option<Op> {
        let p: Vec<&str> = s.trim().split('.').collect();
        if p.len() != 5 {
            return None;
        }
        let code: u8 = p[0].parse().ok()?;
        if code >= NCODES {
            return None;
        }
        // SAFETY: Code is repr(u8) with contiguous discriminants 0..NCODES
        let code: Code = unsafe { std::mem::transmute(code) };
        Some(Op { code, a: p[1].parse().ok()?, b: p[2].parse().ok()?, c: p[3].parse().ok()?, fault: p[4].parse().ok()? })
    }
}

pub fn cell_name(s: u8) -> String {
    if (s as usize) < T {
        format!("c{}", s)
    } else {
        "u".to_string()
    }
}

impl fmt::Debug for Op {
    fn fmt(&self, f: &mut fmt::Formatter<'_>) -> fmt::Result {
        use Code::*;
        let (a, b, c) = (self.a, self.b, self.c);
        match self.code {
            New => write!(f, "New(v{a})")?,
            Dup => write!(f, "Dup(v{a}->v{b})")?,
            Drop => write!(f, "Drop(v{a})")?,
            Load => write!(f, "Load(v{a}.{}->v{c})", cell_name(b))?,
            Store => write!(f, "Store(v{a}.{}<-v{c})", cell_name(b))?,
            Take => write!(f, "Take(v{a}.{}->v{c})", cell_name(b))?,
            MarkAlive => write!(f, "MarkAlive(v{a})")?,
            Collect => write!(f, "Collect")?,
            CollectHolding => write!(f, "CollectHolding(v{a}.{})", cell_name(b))?,
            TakeG => write!(f, "TakeG(->v{a})")?,
            DropG => write!(f, "DropG")?,
            SetFin => write!(f, "SetFin(v{a},{:?})", crate::world::FinScript::from_u8(b))?,
            SetDrop => write!(f, "SetDrop(v{a},{:?})", crate::world::DropScript::from_u8(b))?,
            FinalizeAgain => write!(f, "FinalizeAgain(v{a})")?,
            Downgrade => write!(f, "Downgrade(v{a}->w{b})")?,
            Upgrade => write!(f, "Upgrade(w{a}->v{b})")?,
            DupWeak => write!(f, "DupWeak(w{a}->w{b})")?,
            DropWeak => write!(f, "DropWeak(w{a})")?,
            StoreWeak => write!(f, "StoreWeak(v{a}.w<-w{b})")?,
            TakeWeak => write!(f, "TakeWeak(v{a}.w->w{b})")?,
            WeakNew => write!(f, "WeakNew(w{a})")?,
            TryUnwrap => write!(f, "TryUnwrap(v{a})")?,
            NewCyclic => write!(f, "NewCyclic(v{a},{:?})", crate::world::Closure::from_u8(b))?,
            Register => write!(f, "Register(v{a},{:?}->k{c})", crate::world::ActionKind::from_u8(b))?,
            Clean => write!(f, "Clean(k{a})")?,
            DropCleanable => write!(f, "DropCleanable(k{a})")?,
            SetAuto => write!(f, "SetAuto({})", a != 0)?,
            SetBufThr => write!(f, "SetBufferedThreshold({})", if a == 0 { "None".to_string() } else { a.to_string() })?,
            FillStrong => write!(f, "FillStrong(v{a},MAX-{b})")?,
            FillWeak => write!(f, "FillWeak(v{a},MAX-{b})")?,
            DropStash => write!(f, "DropStash")?,
            CloneExpectPanic => write!(f, "CloneAtMax(v{a})")?,
            DowngradeExpectPanic => write!(f, "DowngradeAtMax(v{a})")?,
            UpgradeExpectPanic => write!(f, "UpgradeAtMax(w{a})")?,
            DupWeakExpectPanic => write!(f, "DupWeakAtMax(w{a})")?,
            PutG => write!(f, "PutG(v{a}->G)")?,
            NewOwning => write!(f, "NewOwning(v{a},c0<-v{b})")?,
            FillBag => {
                let c = self.c as usize;
                if c == 0 {
                    write!(f, "FillBag(v{a},MAX-{b})")?
                } else if c <= MAXV {
                    write!(f, "FillBag(v{a}<-clones of v{},MAX-{b})", c - 1)?
                } else {
                    write!(f, "FillBag(v{a}<-clones of v{} and the handle itself,MAX-{b})", c - 1 - MAXV)?
                }
            },
        }
        if self.fault != NO_FAULT {
            write!(f, "[panic@cp{}]", self.fault)?;
        }
        Ok(())
    }
}

pub fn encode_history(h: &[Op]) -> String {
    h.iter().map(|o| o.encode()).collect::<Vec<_>>().join(" ")
}

pub fn decode_history(s: &str) -> Option<Vec<Op>> {
    s.split_whitespace().map(Op::decode).collect()
}

pub fn fmt_history(h: &[Op]) -> String {
    h.iter().map(|o| format!("{:?}", o)).collect::<Vec<_>>().join(" ; ")
}
