//! C15: automatic collection policy. Explicit-state exploration of allocation / release / configuration
//! workloads on the real crate; the oracle is the documented trigger and threshold policy written as a
//! ten-line reference over *public observables sampled before each creation* (+ the threshold accessor hook).

#![cfg(feature = "auto")]

use std::cell::RefCell;
use std::num::NonZeroUsize;

use rust_cc::config::config;
use rust_cc::verif_hooks as hk;
use rust_cc::{collect_cycles, state, Cc, Context, Finalize, Trace};

use crate::alloc;
use crate::bfs::{RunOut, Sys};
use crate::world::{hash128, Violation};

pub const SIZES: [usize; 6] = [1, 40, 80, 200, 700, 3000];
pub const PERCENTS: [f64; 7] = [0.0, 1e-9, 0.1, 0.25, 0.5, 0.75, 1.0];
const INITIAL_THRESHOLD: usize = 100;

struct Blob<const N: usize> {
    link: RefCell<Option<Cc<Blob<N>>>>,
    /// clones of live blobs held by a garbage blob: when the garbage is destroyed they are released and the live
    /// blobs become buffered - *during* the collection
    held: RefCell<Vec<Cc<Blob<N>>>>,
    _bytes: [u8; N],
}
unsafe impl<const N: usize> Trace for Blob<N> {
    fn trace(&self, ctx: &mut Context<'_>) {
        self.link.trace(ctx);
        self.held.trace(ctx);
    }
}
impl<const N: usize> Finalize for Blob<N> {}

macro_rules! handles {
    ($($var:ident = $n:expr => $idx:expr),+) => {
        enum H { $($var(Cc<Blob<$n>>)),+ }
        impl H {
            fn new(k: usize) -> H {
                match k { $($idx => H::$var(Cc::new(Blob { link: RefCell::new(None), held: RefCell::new(Vec::new()), _bytes: [0u8; $n] })),)+ _ => unreachable!() }
            }
            #[cfg(feature = "weak")]
            fn new_cyclic(k: usize) -> H {
                match k { $($idx => H::$var(Cc::new_cyclic(|_w| Blob { link: RefCell::new(None), held: RefCell::new(Vec::new()), _bytes: [0u8; $n] })),)+ _ => unreachable!() }
            }
            #[cfg(not(feature = "weak"))]
            fn new_cyclic(k: usize) -> H {
                H::new(k)
            }
            /// stores a clone of `other` (same class) in this blob's traced `held` vector
            fn hold(&self, other: &H) {
                match (self, other) { $((H::$var(c), H::$var(o)) => c.held.borrow_mut().push(o.clone()),)+ _ => {} }
            }
            fn is_buffered(&self) -> bool {
                let addr = match self { $(H::$var(c) => hk::box_addr(c)),+ };
                (unsafe { hk::snapshot_at(addr) }.tracing_counter_raw >> 14) != 0
            }
            fn class(&self) -> usize { match self { $(H::$var(_) => $idx),+ } }
            fn self_link(&self) { match self { $(H::$var(c) => { *c.link.borrow_mut() = Some(c.clone()); }),+ } }
            fn buffer(&self) { match self { $(H::$var(c) => { let cl = c.clone(); drop(cl); }),+ } }
        }
    };
}
handles!(A = 1 => 0, B = 40 => 1, C = 80 => 2, D = 200 => 3, E = 700 => 4, F = 3000 => 5);

#[derive(Clone, Copy, Debug, PartialEq, Eq, PartialOrd, Ord, Hash)]
pub enum POp {
    Alloc(u8),
    /// creation through Cc::new_cyclic
    AllocCyclic(u8),
    /// a garbage self-cycle that holds clones of every live blob of its class
    GarbageHolding(u8),
    Free(u8),
    Garbage(u8),
    Buffer(u8),
    Collect,
    SetPercent(u8),
    SetBuffered(u8),
    SetAuto(bool),
}

pub struct PolicySys {
    pub max_live: usize,
    pub max_objects: usize,
    pub sizes: Vec<u8>,
    pub percents: Vec<u8>,
}

fn threshold_invariants(vs: &mut Vec<Violation>, when: &str, p: f64) {
    let th = hk::bytes_threshold().unwrap_or(0);
    let bytes = state::allocated_bytes().unwrap_or(usize::MAX);
    let mut k = th;
    let mut pow2 = th >= INITIAL_THRESHOLD && th % INITIAL_THRESHOLD == 0;
    if pow2 {
        k /= INITIAL_THRESHOLD;
        pow2 = k.is_power_of_two();
    }
    if !pow2 {
        vs.push(Violation { prop: "C15", pred: "P-policy", msg: format!("after {}: byte threshold {} is not a power-of-two multiple of {}", when, th, INITIAL_THRESHOLD) });
        return;
    }
    if th <= bytes {
        vs.push(Violation { prop: "C15", pred: "P-policy", msg: format!("after {}: byte threshold {} is not strictly above allocated bytes {}", when, th, bytes) });
        return;
    }
    if p != 0.0 {
        let not_needlessly_high = (bytes as f64) > (th as f64) * p || (th / 2) <= bytes || th == INITIAL_THRESHOLD;
        if !not_needlessly_high {
            vs.push(Violation { prop: "C15", pred: "P-policy", msg: format!("after {}: byte threshold {} left needlessly high for {} allocated bytes with adjustment_percent {}", when, th, bytes, p) });
        }
    }
}

impl Sys for PolicySys {
    type Op = POp;

    fn thread_init(&self) {
        alloc::init_thread();
        let _ = std::thread::current();
        collect_cycles();
        let _ = config(|_| ());
        let _ = std::panic::catch_unwind(|| std::panic::panic_any("warm-up"));
        hk::reset_thread_state();
    }

    fn run(&self, hist: &[POp]) -> RunOut<POp> {
        hk::reset_thread_state();
        alloc::begin();
        let mut vs: Vec<Violation> = Vec::new();
        let mut tags: Vec<&'static str> = Vec::new();
        let mut live: Vec<(H, bool)> = Vec::new(); // (handle, buffered)
        let mut pending_garbage: Vec<u8> = Vec::new();
        let (mut auto, mut pi, mut bt) = (true, 2u8, 0u8); // defaults: auto on, 0.1, None
        let mut key_bytes: Vec<u8> = Vec::new();
        let r = std::panic::catch_unwind(std::panic::AssertUnwindSafe(|| {
            for (step, op) in hist.iter().enumerate() {
                let last = step + 1 == hist.len();
                let p = PERCENTS[pi as usize];
                // A creation: predicted trigger from the observables before the call
                let mut create = |k: u8, cyclic: bool, vs: &mut Vec<Violation>, tags: &mut Vec<&'static str>, live: &mut Vec<(H, bool)>, pending: &mut Vec<u8>| -> H {
                    let bytes = state::allocated_bytes().unwrap();
                    let buffered = state::buffered_objects_count().unwrap();
                    let th = hk::bytes_threshold().unwrap();
                    let before = state::executions_count().unwrap();
                    let predicted = auto && (bytes > th || (bt > 0 && buffered > bt as usize));
                    let h = if cyclic { H::new_cyclic(k as usize) } else { H::new(k as usize) };
                    let d = state::executions_count().unwrap() - before;
                    if d != predicted as usize {
                        vs.push(Violation { prop: "C15", pred: "P-policy", msg: format!("creating a Cc with auto_collect={}, allocated bytes {}, byte threshold {}, buffered {}, buffered threshold {} started {} collection(s), the documented policy says {}", auto, bytes, th, buffered, if bt == 0 { "None".to_string() } else { bt.to_string() }, d, predicted as usize) });
                    }
                    if d > 0 {
                        if last {
                            tags.push("auto_collection");
                        }
                        pending.clear();
                        for l in live.iter_mut() {
                            l.1 = l.0.is_buffered(); // (garbage that held clones of live blobs re-buffers them)
                        }
                        // the new object has been allocated after the collection: judge the threshold against the bytes at that time
                        // (adjust ran before the allocation), so only the shape invariants are checked here
                        let th2 = hk::bytes_threshold().unwrap();
                        if th2 < INITIAL_THRESHOLD || th2 % INITIAL_THRESHOLD != 0 || !(th2 / INITIAL_THRESHOLD).is_power_of_two() {
                            vs.push(Violation { prop: "C15", pred: "P-policy", msg: format!("after an automatic collection the byte threshold is {}", th2) });
                        }
                        let bytes_at_adjust = state::allocated_bytes().unwrap() - box_size(k as usize);
                        if th2 <= bytes_at_adjust {
                            vs.push(Violation { prop: "C15", pred: "P-policy", msg: format!("after an automatic collection the byte threshold {} is not above the {} bytes allocated at that time", th2, bytes_at_adjust) });
                        }
                        if p != 0.0 && !((bytes_at_adjust as f64) > (th2 as f64) * p || th2 / 2 <= bytes_at_adjust || th2 == INITIAL_THRESHOLD) {
                            vs.push(Violation { prop: "C15", pred: "P-policy", msg: format!("after an automatic collection the byte threshold {} is needlessly high for {} bytes with adjustment_percent {}", th2, bytes_at_adjust, p) });
                        }
                    } else if last {
                        tags.push("no_auto_collection");
                    }
                    h
                };
                match *op {
                    POp::Alloc(k) => {
                        let h = create(k, false, &mut vs, &mut tags, &mut live, &mut pending_garbage);
                        live.push((h, false));
                    },
                    POp::AllocCyclic(k) => {
                        let h = create(k, true, &mut vs, &mut tags, &mut live, &mut pending_garbage);
                        live.push((h, false));
                    },
                    POp::Garbage(k) => {
                        let h = create(k, false, &mut vs, &mut tags, &mut live, &mut pending_garbage);
                        h.self_link();
                        drop(h);
                        pending_garbage.push(k);
                    },
                    POp::GarbageHolding(k) => {
                        let h = create(k, false, &mut vs, &mut tags, &mut live, &mut pending_garbage);
                        for l in live.iter_mut() {
                            if l.0.class() == k as usize {
                                h.hold(&l.0);
                                l.1 = false; // cloning un-buffers
                            }
                        }
                        h.self_link();
                        drop(h);
                        pending_garbage.push(k | 0x80);
                    },
                    POp::Free(i) => {
                        let (h, _) = live.remove(i as usize);
                        drop(h);
                    },
                    POp::Buffer(i) => {
                        live[i as usize].0.buffer();
                        live[i as usize].1 = true;
                    },
                    POp::Collect => {
                        let before = state::executions_count().unwrap();
                        collect_cycles();
                        if state::executions_count().unwrap() - before != 1 {
                            vs.push(Violation { prop: "C15", pred: "P-policy", msg: "collect_cycles() did not count one collection".to_string() });
                        }
                        pending_garbage.clear();
                        for l in live.iter_mut() {
                            l.1 = l.0.is_buffered();
                        }
                        threshold_invariants(&mut vs, "collect_cycles()", p);
                    },
                    POp::SetPercent(x) => {
                        pi = x;
                        config(|c| c.set_adjustment_percent(PERCENTS[x as usize])).unwrap();
                    },
                    POp::SetBuffered(b) => {
                        bt = b;
                        config(|c| c.set_buffered_objects_threshold(NonZeroUsize::new(b as usize))).unwrap();
                    },
                    POp::SetAuto(a) => {
                        auto = a;
                        config(|c| c.set_auto_collect(a)).unwrap();
                    },
                }
                if !vs.is_empty() {
                    break;
                }
            }
            // key
            key_bytes.extend_from_slice(&(state::allocated_bytes().unwrap() as u32).to_le_bytes());
            key_bytes.extend_from_slice(&(hk::bytes_threshold().unwrap() as u32).to_le_bytes());
            key_bytes.push(state::buffered_objects_count().unwrap() as u8);
            key_bytes.push(auto as u8);
            key_bytes.push(pi);
            key_bytes.push(bt);
            let mut l: Vec<(u8, bool)> = live.iter().map(|(h, b)| (h.class() as u8, *b)).collect();
            l.sort();
            for (c, b) in &l {
                key_bytes.push(*c);
                key_bytes.push(*b as u8);
            }
            key_bytes.push(0xFF);
            let mut g = pending_garbage.clone();
            g.sort();
            key_bytes.extend_from_slice(&g);
        }));
        if let Err(p) = r {
            let msg = p.downcast_ref::<&'static str>().map(|s| s.to_string()).or_else(|| p.downcast_ref::<String>().cloned()).unwrap_or_default();
            vs.push(Violation { prop: "ANY", pred: "P-nopanic", msg: format!("unexpected panic: {}", msg) });
        }
        // successors
        let mut succ: Vec<POp> = Vec::new();
        let nobj = live.len() + pending_garbage.len();
        if vs.is_empty() {
            for k in &self.sizes {
                if live.len() < self.max_live && nobj < self.max_objects {
                    succ.push(POp::Alloc(*k));
                }
                if nobj < self.max_objects {
                    succ.push(POp::Garbage(*k));
                }
                if cfg!(feature = "weak") && live.len() < self.max_live && nobj < self.max_objects {
                    succ.push(POp::AllocCyclic(*k));
                }
                if nobj < self.max_objects && live.iter().any(|l| l.0.class() == *k as usize) {
                    succ.push(POp::GarbageHolding(*k));
                }
            }
            for i in 0..live.len() {
                // symmetry: blobs of the same class and buffered flag are interchangeable
                if (0..i).any(|j| live[j].0.class() == live[i].0.class() && live[j].1 == live[i].1) {
                    continue;
                }
                succ.push(POp::Free(i as u8));
                succ.push(POp::Buffer(i as u8));
            }
            succ.push(POp::Collect);
            for x in &self.percents {
                if *x != pi {
                    succ.push(POp::SetPercent(*x));
                }
            }
            for b in [0u8, 1, 2] {
                if b != bt {
                    succ.push(POp::SetBuffered(b));
                }
            }
            succ.push(POp::SetAuto(!auto));
        }
        let key = hash128(&key_bytes);
        let (vs_out, succ_out, tags_out) = alloc::untracked(|| (vs.clone(), succ.clone(), tags.clone()));
        std::mem::forget(live);
        drop(vs);
        drop(succ);
        drop(tags);
        drop(key_bytes);
        drop(pending_garbage);
        hk::reset_thread_state();
        alloc::end();
        RunOut { key, succ: succ_out, violations: vs_out, tags: tags_out }
    }
}

fn box_size(k: usize) -> usize {
    // size of CcBox<Blob<N>>: measured once per class through allocated_bytes()
    thread_local! { static SZ: RefCell<[usize; 6]> = const { RefCell::new([0; 6]) }; }
    SZ.with(|s| {
        let v = s.borrow()[k];
        if v != 0 {
            return v;
        }
        // Measure on a pristine collector state is not possible here (we are mid-history): derive it from the
        // layout instead: header (3 words + counters) + payload, rounded to 8
        let hdr = std::mem::size_of::<usize>() * 4 + 8; // next, prev, metadata (fat ptr = 2 words), counter marker (4) padded to 8
        let payload = std::mem::size_of::<RefCell<Option<Cc<Blob<1>>>>>() + std::mem::size_of::<RefCell<Vec<Cc<Blob<1>>>>>() + SIZES[k];
        let sz = (hdr + payload + 7) / 8 * 8;
        s.borrow_mut()[k] = sz;
        sz
    })
}

/// Self-test of `box_size` against the crate (called once at start): the derived sizes must equal the measured ones
pub fn check_box_sizes() -> Result<(), String> {
    alloc::init_thread();
    hk::reset_thread_state();
    config(|c| c.set_auto_collect(false)).unwrap();
    for k in 0..6 {
        let before = state::allocated_bytes().unwrap();
        let h = H::new(k);
        let sz = state::allocated_bytes().unwrap() - before;
        drop(h);
        if sz != box_size(k) {
            return Err(format!("derived box size {} != measured {} for class {}", box_size(k), sz, k));
        }
    }
    hk::reset_thread_state();
    Ok(())
}
