//! Layout grid: payload types over a grid of (size, align) points, each explored by the mini explorer.
//! Slot-less payloads (any size from 0, any alignment from 1) exercise the reference-counting path,
//! try_unwrap, weak side records and new_cyclic; linked payloads (alignment >= 8) also the collector path.

use std::cell::RefCell;

use rust_cc::{Cc, Context, Finalize, Trace};

use crate::mini::{self, MiniPayload, Typed, TypedWorld};

macro_rules! align_family {
    ($a:literal, $s:ident, $l:ident, $z:ident) => {
        /// slot-less payload: 1 id byte + N pattern bytes
        #[repr(C, align($a))]
        pub struct $s<const N: usize> {
            id: u8,
            bytes: [u8; N],
        }
        unsafe impl<const N: usize> Trace for $s<N> {
            fn trace(&self, _: &mut Context<'_>) {}
        }
        impl<const N: usize> Finalize for $s<N> {
            fn finalize(&self) {
                mini::on_finalize(self as *const Self as usize);
            }
        }
        impl<const N: usize> Drop for $s<N> {
            fn drop(&mut self) {
                mini::on_drop(self as *const Self as usize);
            }
        }
        impl<const N: usize> MiniPayload for $s<N> {
            const NAME: &'static str = concat!(stringify!($s), "<N>");
            const HAS_ID: bool = true;
            fn make(id: u8) -> Self {
                let mut bytes = [0u8; N];
                for (i, b) in bytes.iter_mut().enumerate() {
                    *b = (i as u8).wrapping_mul(31).wrapping_add(id).wrapping_add(7);
                }
                $s { id, bytes }
            }
            fn slot(&self) -> Option<&RefCell<Option<Cc<Self>>>> {
                None
            }
            fn intact(&self, id: u8) -> bool {
                self.id == id && self.bytes.iter().enumerate().all(|(i, b)| *b == (i as u8).wrapping_mul(31).wrapping_add(id).wrapping_add(7))
            }
        }

        /// linked payload: a traced link + id + N pattern bytes
        #[repr(C, align($a))]
        pub struct $l<const N: usize> {
            head: u64,
            link: RefCell<Option<Cc<$l<N>>>>,
            id: u8,
            bytes: [u8; N],
            tail: u8,
        }
        unsafe impl<const N: usize> Trace for $l<N> {
            fn trace(&self, ctx: &mut Context<'_>) {
                self.link.trace(ctx);
            }
        }
        impl<const N: usize> Finalize for $l<N> {
            fn finalize(&self) {
                mini::on_finalize(self as *const Self as usize);
            }
        }
        impl<const N: usize> Drop for $l<N> {
            fn drop(&mut self) {
                mini::on_drop(self as *const Self as usize);
            }
        }
        impl<const N: usize> MiniPayload for $l<N> {
            const NAME: &'static str = concat!(stringify!($l), "<N>");
            const HAS_ID: bool = true;
            fn make(id: u8) -> Self {
                let mut bytes = [0u8; N];
                for (i, b) in bytes.iter_mut().enumerate() {
                    *b = (i as u8).wrapping_mul(13).wrapping_add(id).wrapping_add(3);
                }
                $l { head: 0xFEED_FACE_0000_0000 | id as u64, link: RefCell::new(None), id, bytes, tail: !id }
            }
            fn slot(&self) -> Option<&RefCell<Option<Cc<Self>>>> {
                Some(&self.link)
            }
            fn intact(&self, id: u8) -> bool {
                self.head == (0xFEED_FACE_0000_0000 | id as u64) && self.id == id && self.tail == !id && self.bytes.iter().enumerate().all(|(i, b)| *b == (i as u8).wrapping_mul(13).wrapping_add(id).wrapping_add(3))
            }
        }

        /// zero-sized over-aligned payload
        #[repr(align($a))]
        pub struct $z;
        unsafe impl Trace for $z {
            fn trace(&self, _: &mut Context<'_>) {}
        }
        impl Finalize for $z {
            fn finalize(&self) {
                mini::on_finalize(self as *const Self as usize);
            }
        }
        impl Drop for $z {
            fn drop(&mut self) {
                mini::on_drop(self as *const Self as usize);
            }
        }
        impl MiniPayload for $z {
            const NAME: &'static str = stringify!($z);
            const HAS_ID: bool = false;
            fn make(_id: u8) -> Self {
                $z
            }
            fn slot(&self) -> Option<&RefCell<Option<Cc<Self>>>> {
                None
            }
            fn intact(&self, _id: u8) -> bool {
                true
            }
        }
    };
}

align_family!(1, S1, L1, Z1);
align_family!(2, S2, L2, Z2);
align_family!(4, S4, L4, Z4);
align_family!(8, S8, L8, Z8);
align_family!(16, S16, L16, Z16);
align_family!(32, S32, L32, Z32);
align_family!(64, S64, L64, Z64);
align_family!(128, S128, L128, Z128);
align_family!(256, S256, L256, Z256);
align_family!(512, S512, L512, Z512);
align_family!(1024, S1024, L1024, Z1024);
align_family!(2048, S2048, L2048, Z2048);
align_family!(4096, S4096, L4096, Z4096);

pub struct GridCase {
    pub label: String,
    pub quick: bool,
    pub make: fn() -> Box<dyn TypedWorld>,
}

fn mk<P: MiniPayload>() -> Box<dyn TypedWorld> {
    Box::new(Typed::<P>::new())
}

macro_rules! cases_for {
    ($v:ident, $a:literal, $s:ident, $l:ident, $z:ident, $quick:expr) => {
        $v.push(GridCase { label: format!("zst align {}", $a), quick: $quick, make: mk::<$z> });
        // slot-less: total size = 1 + N rounded up to the alignment
        $v.push(GridCase { label: format!("slotless align {} bytes 1+0", $a), quick: $quick, make: mk::<$s<0>> });
        $v.push(GridCase { label: format!("slotless align {} bytes 1+1", $a), quick: false, make: mk::<$s<1>> });
        $v.push(GridCase { label: format!("slotless align {} bytes 1+2", $a), quick: false, make: mk::<$s<2>> });
        $v.push(GridCase { label: format!("slotless align {} bytes 1+6", $a), quick: false, make: mk::<$s<6>> });
        $v.push(GridCase { label: format!("slotless align {} bytes 1+7", $a), quick: $quick, make: mk::<$s<7>> });
        $v.push(GridCase { label: format!("slotless align {} bytes 1+8", $a), quick: false, make: mk::<$s<8>> });
        $v.push(GridCase { label: format!("slotless align {} bytes 1+62", $a), quick: false, make: mk::<$s<62>> });
        $v.push(GridCase { label: format!("slotless align {} bytes 1+999", $a), quick: false, make: mk::<$s<999>> });
        $v.push(GridCase { label: format!("slotless align {} bytes 1+4095", $a), quick: $quick, make: mk::<$s<4095>> });
        // linked
        $v.push(GridCase { label: format!("linked align {} extra 0", $a), quick: $quick, make: mk::<$l<0>> });
        $v.push(GridCase { label: format!("linked align {} extra 5", $a), quick: false, make: mk::<$l<5>> });
        $v.push(GridCase { label: format!("linked align {} extra 100", $a), quick: false, make: mk::<$l<100>> });
        $v.push(GridCase { label: format!("linked align {} extra 4000", $a), quick: false, make: mk::<$l<4000>> });
    };
}

pub fn cases() -> Vec<GridCase> {
    let mut v: Vec<GridCase> = Vec::new();
    cases_for!(v, 1, S1, L1, Z1, true);
    cases_for!(v, 2, S2, L2, Z2, false);
    cases_for!(v, 4, S4, L4, Z4, false);
    cases_for!(v, 8, S8, L8, Z8, true);
    cases_for!(v, 16, S16, L16, Z16, false);
    cases_for!(v, 32, S32, L32, Z32, false);
    cases_for!(v, 64, S64, L64, Z64, true);
    cases_for!(v, 128, S128, L128, Z128, false);
    cases_for!(v, 256, S256, L256, Z256, false);
    cases_for!(v, 512, S512, L512, Z512, false);
    cases_for!(v, 1024, S1024, L1024, Z1024, false);
    cases_for!(v, 2048, S2048, L2048, Z2048, false);
    cases_for!(v, 4096, S4096, L4096, Z4096, true);
    v
}
