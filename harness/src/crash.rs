//! Crash isolation: every worker publishes the history it is about to execute in a static slot; a fatal
//! signal handler dumps all slots to stderr (async-signal-safe `write` only) and exits with code 70, so the
//! driver can re-run each in-flight history in an isolated subprocess and name the one that crashes.

use std::cell::UnsafeCell;
use std::sync::atomic::{AtomicUsize, Ordering};

use crate::ops::Op;

const SLOTS: usize = 64;
const SLOT_BYTES: usize = 4096;

struct Slot {
    len: AtomicUsize,
    buf: UnsafeCell<[u8; SLOT_BYTES]>,
}
unsafe impl Sync for Slot {}

#[allow(clippy::declare_interior_mutable_const)]
const EMPTY_SLOT: Slot = Slot { len: AtomicUsize::new(0), buf: UnsafeCell::new([0; SLOT_BYTES]) };
static INFLIGHT: [Slot; SLOTS] = [EMPTY_SLOT; SLOTS];

pub fn set_worker(_wid: usize) {}

fn put_num(buf: &mut [u8; SLOT_BYTES], pos: &mut usize, mut n: u32) {
    let mut tmp = [0u8; 10];
    let mut k = 0;
    loop {
        tmp[k] = b'0' + (n % 10) as u8;
        n /= 10;
        k += 1;
        if n == 0 {
            break;
        }
    }
    while k > 0 {
        k -= 1;
        if *pos < SLOT_BYTES {
            buf[*pos] = tmp[k];
            *pos += 1;
        }
    }
}

pub fn set_inflight(wid: usize, h: &[Op]) {
    let slot = &INFLIGHT[wid % SLOTS];
    slot.len.store(0, Ordering::Release);
    let buf = unsafe { &mut *slot.buf.get() };
    let mut pos = 0usize;
    for op in h {
        if pos + 32 >= SLOT_BYTES {
            break;
        }
        put_num(buf, &mut pos, op.code as u32);
        buf[pos] = b'.';
        pos += 1;
        put_num(buf, &mut pos, op.a as u32);
        buf[pos] = b'.';
        pos += 1;
        put_num(buf, &mut pos, op.b as u32);
        buf[pos] = b'.';
        pos += 1;
        put_num(buf, &mut pos, op.c as u32);
        buf[pos] = b'.';
        pos += 1;
        put_num(buf, &mut pos, op.fault as u32);
        buf[pos] = b' ';
        pos += 1;
    }
    slot.len.store(pos, Ordering::Release);
}

pub fn clear_inflight(wid: usize) {
    INFLIGHT[wid % SLOTS].len.store(0, Ordering::Release);
}

extern "C" {
    fn write(fd: i32, buf: *const u8, n: usize) -> isize;
    fn _exit(code: i32) -> !;
    fn sigaction(signum: i32, act: *const SigAction, old: *mut SigAction) -> i32;
}

#[repr(C)]
struct SigAction {
    sa_sigaction: usize,
    sa_mask: [u64; 16],
    sa_flags: i32,
    sa_restorer: usize,
}

const SA_SIGINFO: i32 = 4;
const SA_ONSTACK: i32 = 0x0800_0000;
const SA_NODEFER: i32 = 0x4000_0000;

extern "C" fn on_fatal(sig: i32, _info: usize, _ctx: usize) {
    unsafe {
        let hdr = b"\nCCMC-FATAL-SIGNAL ";
        write(2, hdr.as_ptr(), hdr.len());
        let d = [b'0' + (sig / 10) as u8, b'0' + (sig % 10) as u8, b'\n'];
        write(2, d.as_ptr(), 3);
        for slot in INFLIGHT.iter() {
            let len = slot.len.load(Ordering::Acquire);
            if len > 0 {
                let p = b"INFLIGHT ";
                write(2, p.as_ptr(), p.len());
                write(2, (*slot.buf.get()).as_ptr(), len);
                write(2, b"\n".as_ptr(), 1);
            }
        }
        _exit(70);
    }
}

pub fn install_handlers() {
    unsafe {
        for sig in [11, 7, 4, 6, 8] {
            // SIGSEGV, SIGBUS, SIGILL, SIGABRT, SIGFPE
            let act = SigAction { sa_sigaction: on_fatal as usize, sa_mask: [0; 16], sa_flags: SA_SIGINFO | SA_ONSTACK | SA_NODEFER, sa_restorer: 0 };
            sigaction(sig, &act, std::ptr::null_mut());
        }
    }
}
