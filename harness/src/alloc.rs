//! Instrumented global allocator: the ground truth about allocations, frees and layouts.
//!
//! Per thread, between `begin()` and `end()` (an *execution window*):
//!  * every allocation made while tracking is on is registered (pointer, size, align);
//!  * every deallocation of a registered block is checked (not yet freed, same layout), the block is
//!    poisoned and quarantined (never handed back to the system inside the window, so "freed" is a
//!    stable fact and a use-after-free reads poison deterministically);
//!  * at `end()` every block registered in the window is really released in bulk.
//! The harness must therefore never keep an allocation made inside a window (with tracking on) past `end()`;
//! results are built under `pause()`.
//!
//! The allocator never panics and never allocates through itself.

use std::alloc::{GlobalAlloc, Layout, System};
use std::cell::Cell;
use std::ptr;

pub struct VerifAlloc;

#[derive(Clone, Copy, PartialEq, Eq, Debug)]
#[repr(u8)]
pub enum Kind {
    Plain = 0,
    CcBox = 1,
    Side = 2,
}

#[derive(Clone, Copy)]
struct Entry {
    ptr: usize, // 0 = empty slot
    size: usize,
    align: u32,
    kind: Kind,
    freed: bool,
}

const EMPTY: Entry = Entry { ptr: 0, size: 0, align: 0, kind: Kind::Plain, freed: false };

#[derive(Clone, Copy, Debug, PartialEq, Eq)]
pub enum Event {
    /// A tagged (crate-made) block was released with the right layout.
    Freed { ptr: usize, size: usize, kind: Kind },
    /// A tagged block was allocated by the crate.
    Tagged { ptr: usize, size: usize, align: usize, kind: Kind },
    /// A registered block was released twice.
    DoubleFree { ptr: usize, kind: Kind },
    /// A registered block was released with a layout different from the one it was allocated with.
    LayoutMismatch { ptr: usize, kind: Kind, alloc_size: usize, alloc_align: usize, free_size: usize, free_align: usize },
    /// The crate reported an allocation the allocator has not seen with that layout.
    ObserverMismatch { ptr: usize, size: usize, align: usize },
    /// The event log overflowed (events were lost).
    Overflow,
}

const LOG_CAP: usize = 8192;

struct ThreadState {
    window: bool,
    tracking: bool,
    table: *mut Entry,
    cap: usize, // power of two
    len: usize,
    order: *mut u32, // slots in insertion order (cap/2 entries)
    log: *mut Event,
    log_len: usize,
    log_read: usize,
    live_box_bytes: usize,
    live_box_count: usize,
    live_side_count: usize,
    total_registered: u64,
}

thread_local! {
    static TS: Cell<*mut ThreadState> = const { Cell::new(ptr::null_mut()) };
}

#[inline]
fn ts() -> *mut ThreadState {
    TS.try_with(|c| c.get()).unwrap_or(ptr::null_mut())
}

#[inline]
fn hash(p: usize) -> usize {
    (p >> 3).wrapping_mul(0x9E37_79B9_7F4A_7C15usize) >> 20
}

unsafe fn sys_alloc_array<T>(n: usize) -> *mut T {
    let layout = Layout::array::<T>(n).unwrap();
    let p = System.alloc_zeroed(layout) as *mut T;
    if p.is_null() {
        std::process::abort();
    }
    p
}

unsafe fn sys_free_array<T>(p: *mut T, n: usize) {
    System.dealloc(p as *mut u8, Layout::array::<T>(n).unwrap());
}

impl ThreadState {
    unsafe fn find(&self, p: usize) -> Option<*mut Entry> {
        let mask = self.cap - 1;
        let mut i = hash(p) & mask;
        loop {
            let e = self.table.add(i);
            if (*e).ptr == p {
                return Some(e);
            }
            if (*e).ptr == 0 {
                return None;
            }
            i = (i + 1) & mask;
        }
    }

    unsafe fn insert(&mut self, p: usize, size: usize, align: usize) {
        if (self.len + 1) * 2 > self.cap {
            self.grow();
        }
        let mask = self.cap - 1;
        let mut i = hash(p) & mask;
        loop {
            let e = self.table.add(i);
            if (*e).ptr == 0 {
                *e = Entry { ptr: p, size, align: align as u32, kind: Kind::Plain, freed: false };
                *self.order.add(self.len) = i as u32;
                self.len += 1;
                self.total_registered += 1;
                return;
            }
            if (*e).ptr == p {
                // Cannot happen: blocks are quarantined, so the system never hands an address out twice in a window.
                *e = Entry { ptr: p, size, align: align as u32, kind: Kind::Plain, freed: false };
                return;
            }
            i = (i + 1) & mask;
        }
    }

    unsafe fn grow(&mut self) {
        let old_table = self.table;
        let old_cap = self.cap;
        let old_order = self.order;
        let old_len = self.len;
        self.cap = old_cap * 2;
        self.table = sys_alloc_array::<Entry>(self.cap);
        self.order = sys_alloc_array::<u32>(self.cap / 2 + 1);
        self.len = 0;
        let saved_total = self.total_registered;
        for k in 0..old_len {
            let e = *old_table.add(*old_order.add(k) as usize);
            // re-insert preserving flags
            let mask = self.cap - 1;
            let mut i = hash(e.ptr) & mask;
            loop {
                let s = self.table.add(i);
                if (*s).ptr == 0 {
                    *s = e;
                    *self.order.add(self.len) = i as u32;
                    self.len += 1;
                    break;
                }
                i = (i + 1) & mask;
            }
        }
        self.total_registered = saved_total;
        sys_free_array(old_table, old_cap);
        sys_free_array(old_order, old_cap / 2 + 1);
    }

    unsafe fn push(&mut self, ev: Event) {
        if self.log_len + 1 >= LOG_CAP {
            if self.log_len < LOG_CAP {
                *self.log.add(self.log_len) = Event::Overflow;
                self.log_len += 1;
            }
            return;
        }
        *self.log.add(self.log_len) = ev;
        self.log_len += 1;
    }
}

unsafe impl GlobalAlloc for VerifAlloc {
    unsafe fn alloc(&self, layout: Layout) -> *mut u8 {
        let p = System.alloc(layout);
        let t = ts();
        if !t.is_null() && (*t).window && (*t).tracking && !p.is_null() {
            (*t).insert(p as usize, layout.size(), layout.align());
        }
        p
    }

    unsafe fn alloc_zeroed(&self, layout: Layout) -> *mut u8 {
        let p = System.alloc_zeroed(layout);
        let t = ts();
        if !t.is_null() && (*t).window && (*t).tracking && !p.is_null() {
            (*t).insert(p as usize, layout.size(), layout.align());
        }
        p
    }

    unsafe fn dealloc(&self, p: *mut u8, layout: Layout) {
        let t = ts();
        if !t.is_null() && (*t).window {
            if let Some(e) = (*t).find(p as usize) {
                let ent = *e;
                if ent.freed {
                    (*t).push(Event::DoubleFree { ptr: ent.ptr, kind: ent.kind });
                    return;
                }
                if ent.size != layout.size() || ent.align as usize != layout.align() {
                    (*t).push(Event::LayoutMismatch {
                        ptr: ent.ptr,
                        kind: ent.kind,
                        alloc_size: ent.size,
                        alloc_align: ent.align as usize,
                        free_size: layout.size(),
                        free_align: layout.align(),
                    });
                } else if ent.kind != Kind::Plain {
                    (*t).push(Event::Freed { ptr: ent.ptr, size: ent.size, kind: ent.kind });
                }
                (*e).freed = true;
                match ent.kind {
                    Kind::CcBox => {
                        (*t).live_box_bytes -= ent.size;
                        (*t).live_box_count -= 1;
                    },
                    Kind::Side => (*t).live_side_count -= 1,
                    Kind::Plain => {},
                }
                // Poison and quarantine
                ptr::write_bytes(p, 0xDE, ent.size);
                return;
            }
        }
        System.dealloc(p, layout);
    }

    // realloc: the default implementation goes through alloc + copy + dealloc above.
}

/// Installs the per-thread allocator state (idempotent). Must be called before the first window.
pub fn init_thread() {
    if !ts().is_null() {
        return;
    }
    unsafe {
        let t: *mut ThreadState = sys_alloc_array::<ThreadState>(1);
        let cap = 1024usize;
        ptr::write(
            t,
            ThreadState {
                window: false,
                tracking: false,
                table: sys_alloc_array::<Entry>(cap),
                cap,
                len: 0,
                order: sys_alloc_array::<u32>(cap / 2 + 1),
                log: sys_alloc_array::<Event>(LOG_CAP),
                log_len: 0,
                log_read: 0,
                live_box_bytes: 0,
                live_box_count: 0,
                live_side_count: 0,
                total_registered: 0,
            },
        );
        // zeroed Event memory is not a valid enum in general; never read beyond log_len
        for i in 0..cap {
            *(*t).table.add(i) = EMPTY;
        }
        TS.with(|c| c.set(t));
    }
}

/// Opens an execution window with tracking on.
pub fn begin() {
    let t = ts();
    assert!(!t.is_null(), "alloc::init_thread not called");
    unsafe {
        assert!(!(*t).window, "nested execution window");
        (*t).window = true;
        (*t).tracking = true;
        (*t).log_len = 0;
        (*t).log_read = 0;
    }
}

#[derive(Clone, Copy, Debug, Default)]
pub struct EndStats {
    pub registered: usize,
    pub leaked_boxes: usize,
    pub leaked_sides: usize,
}

/// Closes the window: really releases every block registered in it (freed or not).
pub fn end() -> EndStats {
    let t = ts();
    unsafe {
        assert!((*t).window);
        (*t).window = false;
        (*t).tracking = false;
        let stats = EndStats { registered: (*t).len, leaked_boxes: (*t).live_box_count, leaked_sides: (*t).live_side_count };
        for k in 0..(*t).len {
            let slot = *(*t).order.add(k) as usize;
            let e = *(*t).table.add(slot);
            // Poison before releasing: a later execution must never find a stale, valid-looking value in fresh memory
            ptr::write_bytes(e.ptr as *mut u8, 0xDE, e.size);
            System.dealloc(e.ptr as *mut u8, Layout::from_size_align_unchecked(e.size, e.align as usize));
            *(*t).table.add(slot) = EMPTY;
        }
        (*t).len = 0;
        (*t).live_box_bytes = 0;
        (*t).live_box_count = 0;
        (*t).live_side_count = 0;
        stats
    }
}

pub struct PauseGuard {
    prev: bool,
}

/// Allocations made while the guard lives are not registered (they may outlive the window).
pub fn pause() -> PauseGuard {
    let t = ts();
    if t.is_null() {
        return PauseGuard { prev: false };
    }
    unsafe {
        let prev = (*t).tracking;
        (*t).tracking = false;
        PauseGuard { prev }
    }
}

impl Drop for PauseGuard {
    fn drop(&mut self) {
        let t = ts();
        if !t.is_null() {
            unsafe {
                (*t).tracking = self.prev;
            }
        }
    }
}

/// Switches registration of new allocations on/off inside a window (deallocations are always checked)
pub fn set_tracking(on: bool) {
    let t = ts();
    if !t.is_null() {
        unsafe {
            (*t).tracking = on && (*t).window;
        }
    }
}

/// Runs `f` with tracking off.
pub fn untracked<R>(f: impl FnOnce() -> R) -> R {
    let _g = pause();
    f()
}

/// Tags a registered block as made by the crate. Called from the crate's allocation observer.
pub fn tag(ptr: usize, size: usize, align: usize, kind: Kind) {
    let t = ts();
    if t.is_null() {
        return;
    }
    unsafe {
        if !(*t).window {
            return;
        }
        match (*t).find(ptr) {
            Some(e) if (*e).size == size && (*e).align as usize == align && !(*e).freed => {
                (*e).kind = kind;
                match kind {
                    Kind::CcBox => {
                        (*t).live_box_bytes += size;
                        (*t).live_box_count += 1;
                    },
                    Kind::Side => (*t).live_side_count += 1,
                    Kind::Plain => {},
                }
                (*t).push(Event::Tagged { ptr, size, align, kind });
            },
            _ => {
                if (*t).tracking {
                    (*t).push(Event::ObserverMismatch { ptr, size, align });
                }
            },
        }
    }
}

/// Returns the events recorded since the last call.
pub fn drain(mut f: impl FnMut(Event)) {
    let t = ts();
    if t.is_null() {
        return;
    }
    unsafe {
        while (*t).log_read < (*t).log_len {
            let ev = *(*t).log.add((*t).log_read);
            (*t).log_read += 1;
            f(ev);
        }
    }
}

#[derive(Clone, Copy, Debug)]
pub struct BlockInfo {
    pub size: usize,
    pub align: usize,
    pub kind: Kind,
    pub freed: bool,
}

pub fn block(ptr: usize) -> Option<BlockInfo> {
    let t = ts();
    if t.is_null() {
        return None;
    }
    unsafe { (*t).find(ptr).map(|e| BlockInfo { size: (*e).size, align: (*e).align as usize, kind: (*e).kind, freed: (*e).freed }) }
}

pub fn live_box_bytes() -> usize {
    let t = ts();
    unsafe { (*t).live_box_bytes }
}

pub fn live_box_count() -> usize {
    let t = ts();
    unsafe { (*t).live_box_count }
}

pub fn live_side_count() -> usize {
    let t = ts();
    unsafe { (*t).live_side_count }
}
