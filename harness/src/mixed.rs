//! C03 (layouts of different objects must not leak into each other): small worlds holding objects of TWO payload
//! types with different alignments under one collector, with automatic collections on, so that a creation of one
//! type can start the collection that releases boxes of the other. All histories up to a depth over
//! {new A, new B, turn a live object into buffered garbage, drop, collect} for every ordered pair of alignment
//! classes; the oracle is the instrumented allocator (layout of every release, double frees), drop counters and
//! allocated_bytes() after the final drain.
#![cfg(feature = "auto")]

use std::cell::{Cell, RefCell};

use rust_cc::config::config;
use rust_cc::verif_hooks as hk;
use rust_cc::{collect_cycles, state, Cc, Context, Finalize, Trace};

use crate::alloc;
use crate::world::Violation;

thread_local! {
    static CREATED: Cell<u32> = const { Cell::new(0) };
    static DROPPED: Cell<u32> = const { Cell::new(0) };
}

pub trait Handle {
    /// links the object to itself and drops this handle: buffered garbage
    fn garbage(self: Box<Self>);
    fn intact(&self) -> bool;
}

macro_rules! class {
    ($name:ident, $a:literal, $extra:literal) => {
        #[repr(C, align($a))]
        pub struct $name {
            link: RefCell<Option<Cc<$name>>>,
            pattern: [u8; $extra],
        }
        unsafe impl Trace for $name {
            fn trace(&self, ctx: &mut Context<'_>) {
                self.link.trace(ctx);
            }
        }
        impl Finalize for $name {}
        impl Drop for $name {
            fn drop(&mut self) {
                DROPPED.with(|d| d.set(d.get() + 1));
            }
        }
        impl Handle for Cc<$name> {
            fn garbage(self: Box<Self>) {
                *self.link.borrow_mut() = Some((*self).clone());
            }
            fn intact(&self) -> bool {
                (&**self as *const $name as usize) % $a == 0 && self.pattern.iter().all(|b| *b == 0xA5)
            }
        }
        impl $name {
            fn make() -> Box<dyn Handle> {
                CREATED.with(|c| c.set(c.get() + 1));
                Box::new(Cc::new($name { link: RefCell::new(None), pattern: [0xA5; $extra] }))
            }
        }
    };
}
class!(P8, 8, 3);
class!(P8big, 8, 200);
class!(P16, 16, 1);
class!(P64, 64, 40);
class!(P512, 512, 0);
class!(P4096, 4096, 9);

pub const CLASSES: [(&str, fn() -> Box<dyn Handle>); 6] = [("align 8", P8::make), ("align 8, 200 bytes", P8big::make), ("align 16", P16::make), ("align 64", P64::make), ("align 512", P512::make), ("align 4096", P4096::make)];

#[derive(Clone, Copy, Debug, PartialEq, Eq)]
pub enum XOp {
    New(u8), // 0 = class A, 1 = class B
    Garbage(u8),
    Drop(u8),
    Collect,
}

pub struct MixedStats {
    pub pairs: u64,
    pub histories: u64,
    pub steps: u64,
    pub auto_collections: u64,
    pub samples: Vec<String>,
}

fn run_history(a: usize, b: usize, auto: bool, hist: &[XOp], st: &mut MixedStats) -> Option<String> {
    hk::reset_thread_state();
    alloc::begin();
    let _ = config(|c| c.set_auto_collect(auto));
    CREATED.with(|c| c.set(0));
    DROPPED.with(|c| c.set(0));
    let mut bad: Option<String> = None;
    let mut live: Vec<Box<dyn Handle>> = Vec::new();
    let mut verdicts = |bad: &mut Option<String>| {
        alloc::drain(|ev| match ev {
            alloc::Event::DoubleFree { ptr, kind } => *bad = bad.take().or(Some(format!("double free of {:?} block {:#x}", kind, ptr))),
            alloc::Event::LayoutMismatch { kind, alloc_size, alloc_align, free_size, free_align, .. } => {
                *bad = bad.take().or(Some(format!("{:?} block allocated with size {} align {} released with size {} align {}", kind, alloc_size, alloc_align, free_size, free_align)))
            },
            alloc::Event::ObserverMismatch { size, align, .. } => *bad = bad.take().or(Some(format!("the crate reported an allocation (size {}, align {}) unknown to the allocator", size, align))),
            _ => {},
        });
    };
    let body = std::panic::catch_unwind(std::panic::AssertUnwindSafe(|| {
        for op in hist {
            st.steps += 1;
            let before = state::executions_count().unwrap_or(0);
            match *op {
                XOp::New(k) => live.push((CLASSES[if k == 0 { a } else { b }].1)()),
                XOp::Garbage(i) => live.remove(i as usize).garbage(),
                XOp::Drop(i) => drop(live.remove(i as usize)),
                XOp::Collect => collect_cycles(),
            }
            if matches!(op, XOp::New(_)) && state::executions_count().unwrap_or(0) != before {
                st.auto_collections += 1;
            }
            verdicts(&mut bad);
            if bad.is_none() && !live.iter().all(|h| h.intact()) {
                bad = Some("a live object is misaligned or its bytes changed".to_string());
            }
            if bad.is_some() {
                break;
            }
        }
        if bad.is_none() {
            live.clear();
            collect_cycles();
            collect_cycles();
            verdicts(&mut bad);
            let (c, d) = (CREATED.with(|c| c.get()), DROPPED.with(|c| c.get()));
            if bad.is_none() && c != d {
                bad = Some(format!("{} objects created, {} dropped after everything was released and collected", c, d));
            }
            if bad.is_none() && state::allocated_bytes().unwrap_or(1) != 0 {
                bad = Some(format!("allocated_bytes() = {:?} after everything was released", state::allocated_bytes()));
            }
            if bad.is_none() && alloc::live_box_count() != 0 {
                bad = Some(format!("{} managed boxes still allocated after everything was released", alloc::live_box_count()));
            }
        }
    }));
    if body.is_err() && bad.is_none() {
        bad = Some("unexpected panic".to_string());
    }
    // the message was allocated inside the allocator window (which is released in bulk below): hand out a copy
    let out = alloc::untracked(|| bad.clone());
    std::mem::forget(bad);
    std::mem::forget(live);
    hk::reset_thread_state();
    alloc::end();
    out
}

fn extend(a: usize, b: usize, auto: bool, hist: &mut Vec<XOp>, nlive: usize, created: usize, depth: usize, st: &mut MixedStats, out: &mut Vec<Violation>) {
    if !out.is_empty() {
        return;
    }
    if !hist.is_empty() {
        st.histories += 1;
        if let Some(msg) = run_history(a, b, auto, hist, st) {
            out.push(Violation { prop: "C03", pred: "P-once", msg: format!("classes A = {}, B = {}, auto_collect {}: {} | history: {:?}", CLASSES[a].0, CLASSES[b].0, auto, msg, hist) });
            return;
        }
    }
    if hist.len() >= depth {
        return;
    }
    let mut next: Vec<(XOp, usize, usize)> = Vec::new();
    if nlive < 3 && created < 5 {
        next.push((XOp::New(0), nlive + 1, created + 1));
        if a != b {
            next.push((XOp::New(1), nlive + 1, created + 1));
        }
    }
    for i in 0..nlive {
        next.push((XOp::Garbage(i as u8), nlive - 1, created));
        next.push((XOp::Drop(i as u8), nlive - 1, created));
    }
    if !matches!(hist.last(), Some(XOp::Collect)) {
        next.push((XOp::Collect, nlive, created));
    }
    for (op, nl, cr) in next {
        hist.push(op);
        extend(a, b, auto, hist, nl, cr, depth, st, out);
        hist.pop();
    }
}

pub fn run(depth: usize) -> (MixedStats, Vec<Violation>) {
    alloc::init_thread();
    let mut st = MixedStats { pairs: 0, histories: 0, steps: 0, auto_collections: 0, samples: vec![] };
    let mut out = Vec::new();
    for a in 0..CLASSES.len() {
        for b in 0..CLASSES.len() {
            for auto in [true, false] {
                st.pairs += 1;
                let mut hist = Vec::new();
                extend(a, b, auto, &mut hist, 0, 0, depth, &mut st, &mut out);
                if !out.is_empty() {
                    return (st, out);
                }
            }
            if st.samples.len() < 6 && (a * 7 + b) % 11 == 3 {
                st.samples.push(format!("A = {}, B = {}: all histories to depth {} over new A / new B / garbage / drop / collect", CLASSES[a].0, CLASSES[b].0, depth));
            }
        }
    }
    (st, out)
}
