// Included into world.rs: operation execution, post-operation oracles, epilogue probe, canonical key.

// ------------------------------------------------------------------------------------------------
// Cleaning actions and new_cyclic closures
// ------------------------------------------------------------------------------------------------

#[cfg(feature = "cleaners")]
struct ActionEnv {
    aid: u8,
    kind: ActionKind,
    captured: Option<Cc<Node>>,
    captured_weak: Option<Weak<Node>>,
    weak_target: Option<u8>,
}

#[cfg(feature = "cleaners")]
fn cb_action(mut env: ActionEnv) {
    let Some(c) = try_ctx() else {
        std::mem::forget(env);
        return;
    };
    drain_alloc();
    let aid = env.aid as usize;
    c.action_events.set(c.action_events.get() + 1);
    c.last_was_trace.set(false);
    c.stats.borrow_mut().actions_run += 1;
    match state::is_tracing() {
        Ok(false) => {},
        other => v!("C12", "P-phase", "is_tracing() = {:?} inside cleaning action #{}", other, aid),
    }
    {
        let mut m = c.model.borrow_mut();
        m.actions[aid].runs += 1;
        // The closure has been consumed: what it captured now belongs to this invocation and is released when
        // it returns or unwinds
        m.actions[aid].pending = false;
        let runs = m.actions[aid].runs;
        drop(m);
        if runs > 1 {
            v!("C10", "P-clean", "cleaning action #{} run {} times", aid, runs);
            std::mem::forget(env);
            return;
        }
    }
    if !budget() {
        std::mem::forget(env);
        return;
    }
    {
        // An action may run only because its own clean() was called or because its Cleaner is being / has been dropped
        let m = c.model.borrow();
        let owner = m.actions[aid].owner as usize;
        let owner_gone = m.objs[owner].dropped;
        let own_clean = c.stack.borrow().iter().rev().find_map(|f| if let Frame::Clean(x) = f { Some(*x as usize == aid) } else { None }).unwrap_or(false);
        drop(m);
        if !owner_gone && !own_clean {
            v!("C10", "P-clean", "cleaning action #{} ran although neither its own clean() was called nor its Cleaner dropped", aid);
        }
    }
    let _f = FrameGuard::new(Frame::Action(env.aid));
    crash_point(CpKind::Action);
    if !std::thread::panicking() && !has_violation() {
        match env.kind {
            ActionKind::Nop | ActionKind::DropCapturedCc => {},
            ActionKind::Alloc => {
                if let Some((_nid, cc)) = make_node(None) {
                    api_drop(cc);
                }
            },
            ActionKind::UpgradeOwnerWeak | ActionKind::UpgradeNeighbourWeak => {
                if let (Some(w), Some(t)) = (env.captured_weak.as_ref(), env.weak_target) {
                    if let Some(cc) = checked_upgrade(w, WRef::Obj(t)) {
                        if g_is_empty() {
                            c.model.borrow_mut().g = Some(t);
                            *c.g.borrow_mut() = Some(cc);
                        } else {
                            api_drop(cc);
                        }
                    }
                }
            },
            ActionKind::CleanOther => {
                // clean() another cleanable still held by the program
                let mut other: Option<(usize, u8)> = None;
                {
                    let m = c.model.borrow();
                    for j in 0..MAXC {
                        if let Some(a2) = m.cvars[j] {
                            if a2 as usize != aid {
                                other = Some((j, a2));
                                break;
                            }
                        }
                    }
                }
                if let Some((j, a2)) = other {
                    do_clean(j, a2, false);
                }
            },
            ActionKind::Collect => do_collect(),
            // The refusal is only promised inside finalizers and destructors: these scripts act when the action was
            // triggered by the destruction of its owner (a top-level clean() is ordinary top-level code)
            ActionKind::TryUnwrapG => {
                if c.node_destructor_on_stack() {
                    script_try_unwrap_g("cleaning action run by a destructor");
                }
            },
            ActionKind::CollectThenTryUnwrapG => {
                if c.node_destructor_on_stack() {
                    do_collect();
                    script_try_unwrap_g("cleaning action run by a destructor (after a collect_cycles() call)");
                }
            },
            ActionKind::FinalizeAgainG => {
                if c.node_destructor_on_stack() {
                    script_finalize_again_g("cleaning action run by a destructor");
                }
            },
            ActionKind::NewCyclicSaveWeakPanics => {
                #[cfg(feature = "weak")]
                script_new_cyclic_save_weak_panics();
            },
        }
    }
    // Release what the closure captured
    if let Some(cc) = env.captured.take() {
        api_drop(cc);
    }
    env.captured_weak = None;
}

/// `Cleanable::clean()` on cvar `j` holding action `aid`
#[cfg(feature = "cleaners")]
fn do_clean(j: usize, aid: u8, top_level: bool) {
    let c = ctx();
    let runs_before = c.model.borrow().actions[aid as usize].runs;
    {
        let _f = FrameGuard::new(Frame::Api { collect_like: false, collecting: false });
        let _g = FrameGuard::new(Frame::Clean(aid));
        let depth = c.stack.borrow().len();
        let guard = c.cvars[j].borrow();
        let r = catch_unwind(AssertUnwindSafe(|| {
            if let Some(cl) = guard.as_ref() {
                cl.clean();
            }
        }));
        drop(guard);
        if let Err(p) = r {
            unwind_fix_stack(depth);
            drop(_g);
            drop(_f);
            resume_unwind(p);
        }
    }
    drain_alloc();
    let mut m = c.model.borrow_mut();
    let runs_after = m.actions[aid as usize].runs;
    if top_level {
        m.actions[aid as usize].cleaned = true;
        let faults = m.faults;
        drop(m);
        if faults == 0 && runs_after != 1 {
            v!("C10", "P-clean", "cleaning action #{} has run {} times after a top-level clean() returned (before the call: {})", aid, runs_after, runs_before);
        }
    } else {
        // clean() called from inside another callback: the action runs at this first call as well, unless its
        // Cleaner is already being destroyed (then the destruction runs it, which the owner's glue end checks)
        let owner = m.actions[aid as usize].owner as usize;
        let owner_going = m.objs[owner].dropped || m.objs[owner].glue_done || m.objs[owner].freed || m.objs[owner].moved_out;
        let faults = m.faults;
        drop(m);
        if faults == 0 && !owner_going && runs_after != 1 && !std::thread::panicking() {
            v!("C10", "P-clean", "cleaning action #{} has run {} times after a clean() called from inside another callback returned (its Cleaner is alive)", aid, runs_after);
        }
    }
}

// ------------------------------------------------------------------------------------------------
// Operation execution
// ------------------------------------------------------------------------------------------------

#[derive(Clone, Copy, Debug, Default)]
pub struct StepOutcome {
    pub crash_points: u16,
    pub faulted: bool,
    pub machinery_error: bool,
}

fn lowest_other_var(m: &Model, owner: u8, a: usize) -> Option<(usize, u8)> {
    for j in 0..MAXV {
        if j != a {
            if let Some(t) = m.vars[j] {
                if t != owner {
                    return Some((j, t));
                }
            }
        }
    }
    None
}

fn var_id(a: u8) -> u8 {
    ctx().model.borrow().vars[a as usize].expect("op on empty var")
}

fn put_var(b: u8, id: u8, cc: Cc<Node>) {
    let c = ctx();
    c.model.borrow_mut().vars[b as usize] = Some(id);
    let old = c.vars[b as usize].borrow_mut().replace(cc);
    assert!(old.is_none(), "destination var not empty");
}

fn apply(op: Op) {
    let c = ctx();
    let (a, b, cc_) = (op.a, op.b, op.c);
    match op.code {
        Code::New => {
            if let Some((id, cc)) = make_node(Some(false)) {
                put_var(a, id, cc);
            }
        },
        Code::NewOwning => {
            let t = var_id(b);
            let h = c.vars[b as usize].borrow_mut().take().unwrap();
            c.model.borrow_mut().vars[b as usize] = None;
            if let Some((id, cc)) = make_node_owning(Some(false), Some((t, h))) {
                put_var(a, id, cc);
            }
        },
        Code::Dup => {
            let id = var_id(a);
            let cl = c.vars[a as usize].borrow().as_ref().unwrap().clone();
            c.model.borrow_mut().objs[id as usize].buffered = false;
            put_var(b, id, cl);
        },
        Code::Drop => {
            let id = var_id(a);
            let cc = c.vars[a as usize].borrow_mut().take().unwrap();
            {
                let mut m = c.model.borrow_mut();
                m.vars[a as usize] = None;
                if m.count(id as usize) > 0 {
                    m.objs[id as usize].buffered = true;
                }
            }
            api_drop(cc);
        },
        Code::Load => {
            let id = var_id(a);
            let t = c.model.borrow().objs[id as usize].cells[b as usize].expect("load of empty cell");
            let cl = c.vars[a as usize].borrow().as_ref().unwrap().cells[b as usize].borrow().as_ref().unwrap().clone();
            c.model.borrow_mut().objs[t as usize].buffered = false;
            put_var(cc_, t, cl);
        },
        Code::Store => {
            let id = var_id(a);
            let t = var_id(cc_);
            let h = c.vars[cc_ as usize].borrow_mut().take().unwrap();
            {
                let mut m = c.model.borrow_mut();
                m.vars[cc_ as usize] = None;
                m.objs[id as usize].cells[b as usize] = Some(t);
            }
            let owner = c.vars[a as usize].borrow();
            let old = owner.as_ref().unwrap().cells[b as usize].borrow_mut().replace(h);
            assert!(old.is_none());
        },
        Code::Take => {
            let id = var_id(a);
            let h = c.vars[a as usize].borrow().as_ref().unwrap().cells[b as usize].borrow_mut().take().unwrap();
            let t = c.model.borrow_mut().objs[id as usize].cells[b as usize].take().unwrap();
            put_var(cc_, t, h);
        },
        Code::MarkAlive => {
            let id = var_id(a);
            c.vars[a as usize].borrow().as_ref().unwrap().mark_alive();
            c.model.borrow_mut().objs[id as usize].buffered = false;
        },
        Code::Collect => {
            pre_collect_prediction();
            do_collect();
            post_collect_prediction();
        },
        Code::CollectHolding => {
            let id = var_id(a);
            let owner = c.vars[a as usize].borrow();
            let cell = owner.as_ref().unwrap().cells[b as usize].borrow_mut();
            c.model.borrow_mut().held = Some((id, b));
            pre_collect_prediction();
            let depth = c.stack.borrow().len();
            let r = catch_unwind(AssertUnwindSafe(do_collect));
            c.model.borrow_mut().held = None;
            drop(cell);
            drop(owner);
            if let Err(p) = r {
                unwind_fix_stack(depth);
                resume_unwind(p);
            }
            post_collect_prediction();
        },
        Code::TakeG => {
            let h = c.g.borrow_mut().take().unwrap();
            let t = c.model.borrow_mut().g.take().unwrap();
            put_var(a, t, h);
        },
        Code::PutG => {
            let h = c.vars[a as usize].borrow_mut().take().unwrap();
            let mut m = c.model.borrow_mut();
            let t = m.vars[a as usize].take().unwrap();
            m.g = Some(t);
            drop(m);
            *c.g.borrow_mut() = Some(h);
        },
        Code::DropG => {
            let h = c.g.borrow_mut().take().unwrap();
            {
                let mut m = c.model.borrow_mut();
                let t = m.g.take().unwrap();
                if m.count(t as usize) > 0 {
                    m.objs[t as usize].buffered = true;
                }
            }
            api_drop(h);
        },
        Code::SetFin => {
            let id = var_id(a);
            c.vars[a as usize].borrow().as_ref().unwrap().fin_script.set(b);
            c.model.borrow_mut().objs[id as usize].fin_script = b;
        },
        Code::SetDrop => {
            let id = var_id(a);
            c.vars[a as usize].borrow().as_ref().unwrap().drop_script.set(b);
            c.model.borrow_mut().objs[id as usize].drop_script = b;
        },
        Code::FinalizeAgain => {
            #[cfg(feature = "fin")]
            {
                let id = var_id(a);
                c.vars[a as usize].borrow_mut().as_mut().unwrap().finalize_again();
                let mut m = c.model.borrow_mut();
                m.objs[id as usize].fin_flag = false;
                m.objs[id as usize].resurrected = false;
            }
        },
        #[cfg(feature = "weak")]
        Code::Downgrade => {
            let id = var_id(a);
            let w = c.vars[a as usize].borrow().as_ref().unwrap().downgrade();
            let mut m = c.model.borrow_mut();
            m.objs[id as usize].buffered = false;
            m.wvars[b as usize] = Some(WRef::Obj(id));
            drop(m);
            *c.wvars[b as usize].borrow_mut() = Some(w);
        },
        #[cfg(feature = "weak")]
        Code::Upgrade => {
            let target = c.model.borrow().wvars[a as usize].expect("upgrade of empty wvar");
            let res = {
                let w = c.wvars[a as usize].borrow();
                checked_upgrade(w.as_ref().unwrap(), target)
            };
            if let Some(cc) = res {
                if let WRef::Obj(t) = target {
                    put_var(b, t, cc);
                }
            }
        },
        #[cfg(feature = "weak")]
        Code::DupWeak => {
            let target = c.model.borrow().wvars[a as usize].unwrap();
            let w = c.wvars[a as usize].borrow().as_ref().unwrap().clone();
            c.model.borrow_mut().wvars[b as usize] = Some(target);
            *c.wvars[b as usize].borrow_mut() = Some(w);
        },
        #[cfg(feature = "weak")]
        Code::DropWeak => {
            let w = c.wvars[a as usize].borrow_mut().take();
            c.model.borrow_mut().wvars[a as usize] = None;
            drop(w);
            drain_alloc();
        },
        #[cfg(feature = "weak")]
        Code::StoreWeak => {
            let id = var_id(a);
            let w = c.wvars[b as usize].borrow_mut().take().unwrap();
            {
                let mut m = c.model.borrow_mut();
                let t = m.wvars[b as usize].take();
                m.objs[id as usize].wcell = t;
            }
            let owner = c.vars[a as usize].borrow();
            let old = owner.as_ref().unwrap().wcell.borrow_mut().replace(w);
            assert!(old.is_none());
        },
        #[cfg(feature = "weak")]
        Code::TakeWeak => {
            let id = var_id(a);
            let w = c.vars[a as usize].borrow().as_ref().unwrap().wcell.borrow_mut().take().unwrap();
            {
                let mut m = c.model.borrow_mut();
                let t = m.objs[id as usize].wcell.take();
                m.wvars[b as usize] = t;
            }
            *c.wvars[b as usize].borrow_mut() = Some(w);
        },
        #[cfg(feature = "weak")]
        Code::WeakNew => {
            c.model.borrow_mut().wvars[a as usize] = Some(WRef::Dangling);
            *c.wvars[a as usize].borrow_mut() = Some(Weak::new());
        },
        Code::TryUnwrap => op_try_unwrap(a),
        #[cfg(feature = "weak")]
        Code::NewCyclic => op_new_cyclic(a, Closure::from_u8(b)),
        #[cfg(feature = "cleaners")]
        Code::Register => op_register(a, ActionKind::from_u8(b), cc_),
        #[cfg(feature = "cleaners")]
        Code::Clean => {
            let aid = c.model.borrow().cvars[a as usize].expect("clean of empty cvar");
            do_clean(a as usize, aid, true);
        },
        #[cfg(feature = "cleaners")]
        Code::DropCleanable => {
            let cl = c.cvars[a as usize].borrow_mut().take();
            {
                let mut m = c.model.borrow_mut();
                if let Some(aid) = m.cvars[a as usize].take() {
                    m.actions[aid as usize].cvar = None;
                }
            }
            let before = c.action_events.get();
            drop(cl);
            drain_alloc();
            if c.action_events.get() != before {
                v!("C10", "P-clean", "dropping a Cleanable ran a cleaning action");
            }
        },
        #[cfg(feature = "auto")]
        Code::SetAuto => {
            let on = a != 0;
            rust_cc::config::config(|cfg| cfg.set_auto_collect(on)).expect("config access");
            c.model.borrow_mut().auto = on;
        },
        #[cfg(feature = "auto")]
        Code::SetBufThr => {
            rust_cc::config::config(|cfg| cfg.set_buffered_objects_threshold(std::num::NonZeroUsize::new(a as usize))).expect("config access");
            c.model.borrow_mut().buf_thr = a;
        },
        Code::FillStrong => op_fill_strong(a, b),
        Code::FillBag => {
            // c = 0: references to the object itself; c = 1 + v: references to the object held by variable v;
            // c = 1 + MAXV + v: likewise, and the handle in v is moved into the bag as well (every Cc of that
            // object is then owned by a traced field)
            let id = var_id(a);
            let (tv, mv) = if op.c == 0 { (a as usize, false) } else if (op.c as usize) <= MAXV { (op.c as usize - 1, false) } else { (op.c as usize - 1 - MAXV, true) };
            let tid = var_id(tv as u8);
            let target = STRONG_MAX - b as u32;
            let mut n = 0u32;
            {
                let h = c.vars[a as usize].borrow();
                let cc = h.as_ref().unwrap();
                if op.c == 0 {
                    while cc.strong_count() < target {
                        let cl = cc.clone();
                        cc.bag.borrow_mut().push(cl);
                        n += 1;
                    }
                } else {
                    let ht = c.vars[tv].borrow();
                    let tc = ht.as_ref().unwrap();
                    while tc.strong_count() < target {
                        let cl = tc.clone();
                        cc.bag.borrow_mut().push(cl);
                        n += 1;
                    }
                }
            }
            if mv {
                let moved = c.vars[tv].borrow_mut().take().unwrap();
                c.vars[a as usize].borrow().as_ref().unwrap().bag.borrow_mut().push(moved);
                n += 1;
            }
            let mut m = c.model.borrow_mut();
            if mv {
                m.vars[tv] = None;
            }
            m.objs[id as usize].bag_self += n;
            if tid != id {
                m.objs[id as usize].bag_target = tid;
            }
            m.objs[tid as usize].buffered = false;
        },
        #[cfg(feature = "weak")]
        Code::FillWeak => op_fill_weak(a, b),
        Code::DropStash => {
            loop {
                let h = c.stash.borrow_mut().pop();
                let Some(h) = h else { break };
                let id = h.id;
                {
                    let mut m = c.model.borrow_mut();
                    m.stash_strong[id as usize] -= 1;
                    if m.count(id as usize) > 0 {
                        m.objs[id as usize].buffered = true;
                    }
                }
                api_drop(h);
            }
            #[cfg(feature = "weak")]
            {
                let ws: Vec<Weak<Node>> = std::mem::take(&mut *c.wstash.borrow_mut());
                let mut m = c.model.borrow_mut();
                m.stash_weak = [0; MAXOBJ];
                drop(m);
                drop(ws);
                drain_alloc();
            }
        },
        Code::CloneExpectPanic => {
            let id = var_id(a);
            let pre = observe(a);
            let r = {
                let h = c.vars[a as usize].borrow();
                catch_unwind(AssertUnwindSafe(|| h.as_ref().unwrap().clone()))
            };
            match r {
                Ok(cl) => {
                    v!("C16", "P-sat", "clone at the maximum strong count ({}) did not panic", pre.0);
                    std::mem::forget(cl);
                },
                Err(_) => check_unchanged(a, id, pre, "clone"),
            }
        },
        #[cfg(feature = "weak")]
        Code::DowngradeExpectPanic => {
            let id = var_id(a);
            let pre = observe(a);
            let r = {
                let h = c.vars[a as usize].borrow();
                catch_unwind(AssertUnwindSafe(|| h.as_ref().unwrap().downgrade()))
            };
            match r {
                Ok(w) => {
                    v!("C16", "P-sat", "downgrade at the maximum weak count ({}) did not panic", pre.1);
                    std::mem::forget(w);
                },
                Err(_) => check_unchanged(a, id, pre, "downgrade"),
            }
        },
        #[cfg(feature = "weak")]
        Code::UpgradeExpectPanic | Code::DupWeakExpectPanic => {
            let target = c.model.borrow().wvars[a as usize].unwrap();
            let WRef::Obj(t) = target else { panic!("bad target") };
            let (addr, box_alive) = {
                let m = c.model.borrow();
                (m.objs[t as usize].addr, m.objs[t as usize].box_alive())
            };
            let obs = |w: &Weak<Node>| (w.strong_count(), w.weak_count(), if box_alive { Some(unsafe { hk::snapshot_at(addr) }) } else { None });
            let wg = c.wvars[a as usize].borrow();
            let w = wg.as_ref().unwrap();
            let pre = obs(w);
            let what = if op.code == Code::UpgradeExpectPanic { "upgrade" } else { "Weak::clone" };
            let panicked = if op.code == Code::UpgradeExpectPanic {
                match catch_unwind(AssertUnwindSafe(|| w.upgrade())) {
                    Ok(x) => {
                        std::mem::forget(x);
                        false
                    },
                    Err(_) => true,
                }
            } else {
                match catch_unwind(AssertUnwindSafe(|| w.clone())) {
                    Ok(x) => {
                        std::mem::forget(x);
                        false
                    },
                    Err(_) => true,
                }
            };
            if !panicked {
                v!("C16", "P-sat", "{} at the maximum count (strong {}, weak {}) did not panic", what, pre.0, pre.1);
            } else {
                let post = obs(w);
                if post.0 < pre.0 {
                    v!("C04", "P-count", "strong_count() of object #{} went from {} to {} across a panicking {} although no Cc was dropped (the count is now too low)", t, pre.0, post.0, what);
                }
                if post != pre {
                    v!("C16", "P-sat", "{} at saturation of object #{} changed (strong, weak, header) {:?} -> {:?}", what, t, pre, post);
                }
            }
        },
        #[allow(unreachable_patterns)]
        other => panic!("operation {:?} is not available in this build configuration", other),
    }
}

/// (strong, weak, already_finalized, raw snapshot) of the object held by var `a`
fn observe(a: u8) -> (u32, u32, bool, hk::ObjSnapshot) {
    let c = ctx();
    let h = c.vars[a as usize].borrow();
    let cc = h.as_ref().unwrap();
    #[cfg(feature = "weak")]
    let wc = cc.weak_count();
    #[cfg(not(feature = "weak"))]
    let wc = 0;
    #[cfg(feature = "fin")]
    let af = cc.already_finalized();
    #[cfg(not(feature = "fin"))]
    let af = false;
    (cc.strong_count(), wc, af, unsafe { hk::snapshot_at(hk::box_addr(cc)) })
}

fn check_unchanged(a: u8, id: u8, pre: (u32, u32, bool, hk::ObjSnapshot), what: &str) {
    let post = observe(a);
    if post.0 < pre.0 {
        v!("C04", "P-count", "strong_count() of object #{} went from {} to {} across a panicking {} although no Cc was dropped (the count is now too low)", id, pre.0, post.0, what);
    }
    if post.0 != pre.0 || post.1 != pre.1 || post.2 != pre.2 {
        v!("C16", "P-sat", "{} at saturation of object #{} changed (strong, weak, finalized) {:?} -> {:?}", what, id, (pre.0, pre.1, pre.2), (post.0, post.1, post.2));
    } else if post.3 != pre.3 {
        v!("C16", "P-sat", "{} at saturation of object #{} changed the header words {:?} -> {:?}", what, id, pre.3, post.3);
    }
}

pub const STRONG_MAX: u32 = (1 << 14) - 2;
pub const WEAK_MAX: u32 = (1 << 15) - 1;

fn op_fill_strong(a: u8, k: u8) {
    let c = ctx();
    let id = var_id(a);
    let target = STRONG_MAX - k as u32;
    let h = c.vars[a as usize].borrow();
    let cc = h.as_ref().unwrap();
    let mut n = 0u32;
    while cc.strong_count() < target {
        let cl = cc.clone();
        c.stash.borrow_mut().push(cl);
        n += 1;
    }
    let mut m = c.model.borrow_mut();
    m.stash_strong[id as usize] += n;
    m.objs[id as usize].buffered = false;
}

#[cfg(feature = "weak")]
fn op_fill_weak(a: u8, k: u8) {
    let c = ctx();
    let id = var_id(a);
    let target = WEAK_MAX - k as u32;
    let h = c.vars[a as usize].borrow();
    let cc = h.as_ref().unwrap();
    let mut n = 0u32;
    while cc.weak_count() < target {
        let w = cc.downgrade();
        c.wstash.borrow_mut().push(w);
        n += 1;
    }
    let mut m = c.model.borrow_mut();
    m.stash_weak[id as usize] += n;
    m.objs[id as usize].buffered = false;
}

fn op_try_unwrap(a: u8) {
    let c = ctx();
    let id = var_id(a);
    let cc = c.vars[a as usize].borrow_mut().take().unwrap();
    {
        let mut m = c.model.borrow_mut();
        m.vars[a as usize] = None;
        m.inflight.push(id);
    }
    let sc = cc.strong_count();
    let addr = hk::box_addr(&cc);
    let pre_snap = unsafe { hk::snapshot_at(addr) };
    let ev_before = (c.fin_events.get(), c.drop_events.get(), c.trace_events.get(), c.action_events.get());
    let r = {
        let _f = FrameGuard::new(Frame::Api { collect_like: false, collecting: false });
        cc.try_unwrap()
    };
    let ev_after = (c.fin_events.get(), c.drop_events.get(), c.trace_events.get(), c.action_events.get());
    if ev_before != ev_after {
        v!("C13", "P-unwrap", "try_unwrap ran user callbacks (finalize, drop, trace, action) {:?} -> {:?}", ev_before, ev_after);
    }
    match r {
        Ok(node) => {
            c.stats.borrow_mut().unwrap_ok += 1;
            {
                let mut m = c.model.borrow_mut();
                m.objs[id as usize].moved_out = true;
                m.objs[id as usize].buffered = false;
                m.inflight.pop();
            }
            drain_alloc();
            if sc != 1 {
                v!("C13", "P-unwrap", "try_unwrap returned Ok although strong_count() was {}", sc);
            }
            if !node.canary_ok() || node.id != id {
                v!("C13", "P-unwrap", "try_unwrap returned a corrupted value for object #{}", id);
                std::mem::forget(node);
                return;
            }
            match alloc::block(addr) {
                Some(b) if b.freed => {},
                _ => v!("C13", "P-unwrap", "try_unwrap returned Ok but the allocation of object #{} was not released", id),
            }
            #[cfg(feature = "weak")]
            for j in 0..MAXW {
                if c.model.borrow().wvars[j] == Some(WRef::Obj(id)) {
                    let w = c.wvars[j].borrow();
                    let sc = w.as_ref().unwrap().strong_count();
                    if sc != 0 {
                        v!("C13", "P-unwrap", "try_unwrap returned Ok but a Weak to object #{} still reports strong_count() = {}", id, sc);
                    }
                }
            }
            match safe_buffer() {
                Err(e) => v!("C13", "P-unwrap", "try_unwrap returned Ok for object #{} and left the buffer damaged: {}", id, e),
                Ok(b) => {
                    if hk::buffer_first() == addr || b.contains(&addr) {
                        v!("C13", "P-unwrap", "try_unwrap returned Ok but the released allocation of object #{} is still buffered", id);
                    }
                },
            }
            // The value now belongs to the harness: drop it (its fields release their handles)
            let _f = FrameGuard::new(Frame::Api { collect_like: false, collecting: false });
            let depth = c.stack.borrow().len();
            let r = catch_unwind(AssertUnwindSafe(move || drop(node)));
            if let Err(p) = r {
                unwind_fix_stack(depth);
                drop(_f);
                resume_unwind(p);
            }
            drop(_f);
            drain_alloc();
        },
        Err(back) => {
            c.stats.borrow_mut().unwrap_err += 1;
            if sc == 1 {
                v!("C13", "P-unwrap", "try_unwrap returned Err at top level although strong_count() was 1");
            }
            if hk::box_addr(&back) != addr {
                v!("C13", "P-unwrap", "try_unwrap returned Err with a different pointer");
            }
            let post_snap = unsafe { hk::snapshot_at(addr) };
            if back.strong_count() != sc || post_snap != pre_snap {
                v!("C13", "P-unwrap", "a failed try_unwrap changed the object: {:?} -> {:?}", pre_snap, post_snap);
            }
            let mut m = c.model.borrow_mut();
            m.inflight.pop();
            m.vars[a as usize] = Some(id);
            drop(m);
            *c.vars[a as usize].borrow_mut() = Some(back);
        },
    }
}

const CLOSURE_PANIC: &str = "ccmc-closure-panic";

#[cfg(feature = "weak")]
fn op_new_cyclic(a: u8, script: Closure) {
    let c = ctx();
    let id = {
        let mut m = c.model.borrow_mut();
        if m.objs.len() >= c.cfg.nobj {
            return;
        }
        let mut o = MObj::new();
        o.constructed = false;
        o.cyclic_pending = true;
        m.objs.push(o);
        (m.objs.len() - 1) as u8
    };
    let before = state::executions_count().unwrap_or(0);
    let closure_ran = Cell::new(false);
    let saved_to_w0 = Cell::new(false);
    let r = {
        let _f = FrameGuard::new(Frame::Api { collect_like: true, collecting: false });
        let depth = c.stack.borrow().len();
        let r = catch_unwind(AssertUnwindSafe(|| {
            Cc::new_cyclic(|w: &Weak<Node>| {
                closure_ran.set(true);
                drain_alloc();
                // The automatic collection (if any) run by new_cyclic is over by the time the closure is called
                if let Some(Frame::Api { collecting, .. }) = c.stack.borrow_mut().last_mut() {
                    *collecting = false;
                }
                let _cf = FrameGuard::new(Frame::Closure(id));
                // The allocation is the most recently tagged box
                let addr = last_tagged_box();
                {
                    let mut m = c.model.borrow_mut();
                    let o = &mut m.objs[id as usize];
                    o.addr = addr;
                    o.boxed = true;
                    o.size = alloc::block(addr).map_or(0, |b| b.size);
                    o.side = unsafe { hk::snapshot_at(addr) }.metadata_addr;
                    m.inflight_weak.push(id);
                }
                let after = state::executions_count().unwrap_or(0);
                check_auto_collect(before, after, false);
                if w.strong_count() != 0 {
                    v!("C14", "P-cyclic", "Weak::strong_count() = {} inside the new_cyclic closure", w.strong_count());
                }
                if w.weak_count() != 1 {
                    v!("C09", "P-wcnt", "Weak::weak_count() = {} inside the new_cyclic closure (expected 1)", w.weak_count());
                }
                if let Some(cc) = checked_upgrade(w, WRef::Obj(id)) {
                    std::mem::forget(cc);
                }
                crash_point(CpKind::Closure);
                match script {
                    Closure::Nop | Closure::TryUpgrade | Closure::KeepWeakInSelf => {},
                    Closure::SaveWeakToW0 => {
                        if c.wvars[0].borrow().is_none() {
                            *c.wvars[0].borrow_mut() = Some(w.clone());
                            c.model.borrow_mut().wvars[0] = Some(WRef::Obj(id));
                            saved_to_w0.set(true);
                        }
                    },
                    Closure::Alloc => {
                        if let Some((_n, cc)) = make_node(None) {
                            api_drop(cc);
                        }
                    },
                    Closure::Collect => do_collect(),
                    Closure::Panic => {
                        std::panic::panic_any(CLOSURE_PANIC);
                    },
                    Closure::NestedNewCyclic => {
                        // an inner new_cyclic while this allocation is still uninitialised: its Weak stays dead inside
                        // the inner closure and after the inner call has returned
                        let look = |when: &str| {
                            if w.strong_count() != 0 {
                                v!("C14", "P-cyclic", "Weak::strong_count() of the allocation under construction = {} {}", w.strong_count(), when);
                            } else if let Some(cc) = checked_upgrade(w, WRef::Obj(id)) {
                                std::mem::forget(cc);
                            }
                        };
                        let inside = || look("inside the closure of a nested new_cyclic");
                        if let Some((_nid, cc)) = make_cyclic_node_hook(None, Some(&inside)) {
                            look("after a nested new_cyclic returned");
                            api_drop(cc);
                        }
                    },
                }
                // The value is built last: nothing can unwind once it exists
                let node = Node::new(id);
                if script == Closure::KeepWeakInSelf {
                    *node.wcell.borrow_mut() = Some(w.clone());
                }
                {
                    let mut m = c.model.borrow_mut();
                    let o = &mut m.objs[id as usize];
                    o.constructed = true;
                    if script == Closure::KeepWeakInSelf {
                        o.wcell = Some(WRef::Obj(id));
                    }
                }
                node
            })
        }));
        if r.is_err() {
            unwind_fix_stack(depth);
        }
        r
    };
    drain_alloc();
    {
        let mut m = c.model.borrow_mut();
        if let Some(pos) = m.inflight_weak.iter().rposition(|x| *x == id) {
            m.inflight_weak.remove(pos);
        }
    }
    match r {
        Ok(cc) => {
            let addr = hk::box_addr(&cc);
            cc.home.set(&*cc as *const Node as usize);
            {
                let mut m = c.model.borrow_mut();
                let o = &mut m.objs[id as usize];
                o.cyclic_pending = false;
                if o.addr != addr {
                    let rec = o.addr;
                    drop(m);
                    v!("C14", "P-cyclic", "new_cyclic returned a Cc to {:#x} but the closure's allocation was {:#x}", addr, rec);
                }
            }
            if cc.strong_count() != 1 {
                v!("C14", "P-cyclic", "strong_count() = {} right after new_cyclic returned", cc.strong_count());
            }
            #[cfg(feature = "fin")]
            {
                let af = cc.already_finalized();
                c.model.borrow_mut().objs[id as usize].fin_flag = af;
            }
            put_var(a, id, cc);
            if saved_to_w0.get() {
                let res = {
                    let w = c.wvars[0].borrow();
                    checked_upgrade(w.as_ref().unwrap(), WRef::Obj(id))
                };
                match res {
                    Some(up) => {
                        // transient handle: drop it again (model: release before drop; the clone un-buffered nothing new)
                        api_drop_counted(up, id);
                    },
                    None => {
                        if !has_violation() {
                            v!("C14", "P-cyclic", "a Weak saved by the new_cyclic closure does not upgrade after new_cyclic returned");
                        }
                    },
                }
            }
        },
        Err(p) => {
            let expected = p.downcast_ref::<&'static str>().map_or(false, |s| *s == CLOSURE_PANIC);
            {
                let mut m = c.model.borrow_mut();
                let o = &mut m.objs[id as usize];
                o.cyclic_pending = false;
                o.cyclic_failed = true;
                o.constructed = false;
            }
            // Whatever the reason of the unwinding: the allocation made for the value must be gone
            if closure_ran.get() {
                let addr = c.model.borrow().objs[id as usize].addr;
                match alloc::block(addr) {
                    Some(b) if b.freed => {
                        c.model.borrow_mut().objs[id as usize].freed = true;
                    },
                    other => v!("C14", "P-cyclic", "new_cyclic unwound but the allocation made for the value was not released ({:?})", other),
                }
                let weaks = c.model.borrow().weak_count(id as usize);
                let side = c.model.borrow().objs[id as usize].side;
                match alloc::block(side) {
                    Some(b) if b.kind == alloc::Kind::Side => {
                        if weaks == 0 && !b.freed {
                            v!("C14", "P-cyclic", "new_cyclic unwound and no Weak was saved, but its side record was not released");
                        }
                        if weaks > 0 && b.freed {
                            v!("C14", "P-cyclic", "new_cyclic unwound with {} saved Weak(s) but their side record was released", weaks);
                        }
                    },
                    other => v!("C14", "P-cyclic", "the side record of the new_cyclic allocation is not a crate side allocation: {:?}", other),
                }
            } else {
                // The panic came from the automatic collection run before the closure: nothing of the new
                // allocation may survive
                let mut m = c.model.borrow_mut();
                m.objs[id as usize].freed = true;
            }
            if !expected {
                resume_unwind(p);
            }
        },
    }
}

/// Called from finalizer / destructor / action scripts: `Cc::new_cyclic` whose closure saves a clone of its Weak in
/// the weak variable w0 and then panics. The script catches the panic (the callback goes on). The allocation made
/// for the value must be gone, the side record must survive for the saved Weak, and that Weak must stay dead for
/// ever (checked by the weak-variable oracles after every later operation).
#[cfg(feature = "weak")]
fn script_new_cyclic_save_weak_panics() {
    let c = ctx();
    if c.cfg.nw == 0 || c.wvars[0].borrow().is_some() || c.model.borrow().wvars[0].is_some() {
        return;
    }
    let id = {
        let mut m = c.model.borrow_mut();
        if m.objs.len() >= c.cfg.nobj {
            return;
        }
        let mut o = MObj::new();
        o.constructed = false;
        o.cyclic_pending = true;
        m.objs.push(o);
        (m.objs.len() - 1) as u8
    };
    let closure_ran = Cell::new(false);
    let r = {
        let _f = FrameGuard::new(Frame::Api { collect_like: true, collecting: false });
        let depth = c.stack.borrow().len();
        let r = catch_unwind(AssertUnwindSafe(|| {
            Cc::new_cyclic(|w: &Weak<Node>| -> Node {
                closure_ran.set(true);
                drain_alloc();
                let addr = last_tagged_box();
                {
                    let mut m = c.model.borrow_mut();
                    let o = &mut m.objs[id as usize];
                    o.addr = addr;
                    o.boxed = true;
                    o.size = alloc::block(addr).map_or(0, |b| b.size);
                    o.side = unsafe { hk::snapshot_at(addr) }.metadata_addr;
                }
                *c.wvars[0].borrow_mut() = Some(w.clone());
                c.model.borrow_mut().wvars[0] = Some(WRef::Obj(id));
                std::panic::panic_any(CLOSURE_PANIC);
            })
        }));
        unwind_fix_stack(depth);
        r
    };
    drain_alloc();
    {
        let mut m = c.model.borrow_mut();
        let o = &mut m.objs[id as usize];
        o.cyclic_pending = false;
        o.cyclic_failed = true;
        o.constructed = false;
    }
    match r {
        Ok(cc) => {
            v!("C14", "P-cyclic", "new_cyclic returned normally although its closure panicked");
            std::mem::forget(cc);
        },
        Err(_) => {
            if closure_ran.get() {
                // (1) safety, which C07 demands after any callback panic: the saved Weak is dead from now on
                c.closure_panic_caught.set(true);
                let up = {
                    let w = c.wvars[0].borrow();
                    match w.as_ref() {
                        Some(w) => {
                            if w.strong_count() != 0 {
                                v!("C08", "P-upg", "a Weak saved by a new_cyclic closure that panicked reports strong_count() = {} (never-initialised value)", w.strong_count());
                            }
                            if has_violation() { None } else { checked_upgrade(w, WRef::Obj(id)) }
                        },
                        None => None,
                    }
                };
                if let Some(cc) = up {
                    std::mem::forget(cc);
                }
                // (2) release of the memory, which only C14 demands (a leak is permitted damage for C07)
                if !has_violation() {
                    c.closure_panic_caught.set(false);
                    let addr = c.model.borrow().objs[id as usize].addr;
                    match alloc::block(addr) {
                        Some(b) if b.freed => c.model.borrow_mut().objs[id as usize].freed = true,
                        other => v!("C14", "P-cyclic", "new_cyclic (called from a callback) unwound but the allocation made for the value was not released ({:?})", other),
                    }
                    let side = c.model.borrow().objs[id as usize].side;
                    match alloc::block(side) {
                        Some(b) if b.kind == alloc::Kind::Side && !b.freed => {},
                        other => v!("C14", "P-cyclic", "new_cyclic (called from a callback) unwound with a saved Weak but its side record is {:?}", other),
                    }
                    c.closure_panic_caught.set(true);
                }
            } else {
                // the panic came from the automatic collection run before the closure (refused inside callbacks of a
                // running collection; possible from a callback of a plain Cc::drop)
                c.closure_panic_caught.set(true);
                c.model.borrow_mut().objs[id as usize].freed = true;
            }
        },
    }
}

/// Drops a transient handle to `id` that the model never recorded in a variable
fn api_drop_counted(cc: Cc<Node>, id: u8) {
    let c = ctx();
    {
        let mut m = c.model.borrow_mut();
        if m.count(id as usize) > 0 {
            m.objs[id as usize].buffered = true;
        }
    }
    api_drop(cc);
}

thread_local! {
    static LAST_TAGGED_BOX: Cell<usize> = const { Cell::new(0) };
}

pub fn note_tagged_box(addr: usize) {
    LAST_TAGGED_BOX.with(|c| c.set(addr));
}

fn last_tagged_box() -> usize {
    LAST_TAGGED_BOX.with(|c| c.get())
}

#[cfg(feature = "cleaners")]
fn op_register(a: u8, kind: ActionKind, dst: u8) {
    let c = ctx();
    let owner = var_id(a);
    let (captured_var, weak_target): (Option<(usize, u8)>, Option<u8>) = {
        let m = c.model.borrow();
        match kind {
            ActionKind::DropCapturedCc => (lowest_other_var(&m, owner, a as usize), None),
            ActionKind::UpgradeOwnerWeak => (None, Some(owner)),
            ActionKind::UpgradeNeighbourWeak => (None, lowest_other_var(&m, owner, a as usize).map(|x| x.1)),
            _ => (None, None),
        }
    };
    let aid = c.model.borrow().actions.len() as u8;
    let captured: Option<Cc<Node>> = captured_var.map(|(j, t)| {
        let cl = c.vars[j].borrow().as_ref().unwrap().clone();
        c.model.borrow_mut().objs[t as usize].buffered = false;
        cl
    });
    let captured_weak: Option<Weak<Node>> = weak_target.map(|t| {
        let j = (0..MAXV).find(|j| c.model.borrow().vars[*j] == Some(t)).unwrap();
        let w = c.vars[j].borrow().as_ref().unwrap().downgrade();
        c.model.borrow_mut().objs[t as usize].buffered = false;
        w
    });
    {
        let mut m = c.model.borrow_mut();
        m.actions.push(MAction {
            owner,
            kind: kind as u8,
            captured: captured_var.map(|x| x.1),
            captured_weak: weak_target,
            runs: 0,
            pending: true,
            cvar: Some(dst),
            cleaned: false,
        });
    }
    let env = ActionEnv { aid, kind, captured, captured_weak, weak_target };
    let before = state::executions_count().unwrap_or(0);
    let running = c.collection_running();
    let cleanable = {
        let _f = FrameGuard::new(Frame::Api { collect_like: true, collecting: false });
        let h = c.vars[a as usize].borrow();
        h.as_ref().unwrap().cleaner.register(move || cb_action(env))
    };
    drain_alloc();
    let after = state::executions_count().unwrap_or(0);
    check_auto_collect(before, after, running);
    {
        let mut m = c.model.borrow_mut();
        if m.objs[owner as usize].map_addr == 0 {
            m.objs[owner as usize].map_addr = last_tagged_box();
        }
        m.cvars[dst as usize] = Some(aid);
    }
    *c.cvars[dst as usize].borrow_mut() = Some(cleanable);
}

/// Finalizer script: registers a (no-op) cleaning action on the Cleaner of the live object in cell 0 and keeps the
/// Cleanable in the highest free cleanable variable. When the finalizer was started by the automatic collection of a
/// `Cc::new` that `Cleaner::register` itself issues (the lazily created action map), this is a registration nested
/// inside a registration on the same Cleaner.
#[cfg(feature = "cleaners")]
fn script_register_on_cell0(node: &Node) {
    let c = ctx();
    let id = node.id as usize;
    let (t, dst, aid) = {
        let m = c.model.borrow();
        let Some(t) = m.objs[id].cells[0] else { return };
        if t as usize == id || !m.objs[t as usize].value_alive() || m.objs[t as usize].moved_out {
            return;
        }
        if m.actions.len() >= c.cfg.max_actions.max(1) + 1 {
            return;
        }
        let Some(dst) = (0..c.cfg.nc).rev().find(|j| m.cvars[*j].is_none() && c.cvars[*j].try_borrow().map_or(false, |x| x.is_none())) else { return };
        if dst == 0 {
            return; // the lowest variable is the one a top-level Register in progress is about to fill
        }
        (t, dst, m.actions.len() as u8)
    };
    c.model.borrow_mut().actions.push(MAction { owner: t, kind: ActionKind::Nop as u8, captured: None, captured_weak: None, runs: 0, pending: true, cvar: Some(dst as u8), cleaned: false });
    let env = ActionEnv { aid, kind: ActionKind::Nop, captured: None, captured_weak: None, weak_target: None };
    let cleanable = {
        let _f = FrameGuard::new(Frame::Api { collect_like: true, collecting: false });
        let cell = node.cells[0].try_borrow();
        match cell.as_ref().ok().and_then(|x| x.as_ref()) {
            Some(cc) => Some(cc.cleaner.register(move || cb_action(env))),
            None => None,
        }
    };
    drain_alloc();
    let Some(cleanable) = cleanable else { return };
    {
        let mut m = c.model.borrow_mut();
        if m.objs[t as usize].map_addr == 0 {
            m.objs[t as usize].map_addr = last_tagged_box();
        }
        m.cvars[dst] = Some(aid);
    }
    *c.cvars[dst].borrow_mut() = Some(cleanable);
}

// ------------------------------------------------------------------------------------------------
// Predicted buffer membership (exact for programs whose finalizers do not manipulate pointers)
// ------------------------------------------------------------------------------------------------

fn pre_collect_prediction() {
    let c = ctx();
    if c.collection_running() {
        return;
    }
    let mut m = c.model.borrow_mut();
    for o in m.objs.iter_mut() {
        o.buffered = false;
    }
}

fn post_collect_prediction() {
    let c = ctx();
    if cfg!(feature = "fin") {
        let mut m = c.model.borrow_mut();
        for o in m.objs.iter_mut() {
            o.buffered = false;
        }
    }
}

/// Called from cb_drop (after the object has been marked dropped): handles released by its drop glue
fn predict_children_buffered(id: usize) {
    let c = ctx();
    let mut m = c.model.borrow_mut();
    let cells = m.objs[id].cells;
    for t in cells.iter().flatten() {
        let t = *t as usize;
        if t != id && m.objs[t].value_alive() && m.count(t) > 0 {
            m.objs[t].buffered = true;
        }
    }
}

// ------------------------------------------------------------------------------------------------
// One step = one operation + post-operation oracles
// ------------------------------------------------------------------------------------------------

pub fn step(op: Op) -> StepOutcome {
    let c = ctx();
    c.cp_count.set(0);
    c.cp_kinds.borrow_mut().clear();
    c.fault_at.set(op.fault);
    c.fault_fired.set(false);
    c.batch_live.set(None);
    c.last_was_trace.set(false);
    c.episodes.set(0);
    c.fin_mark.set(c.fin_events.get());
    c.drop_mark.set(c.drop_events.get());
    c.op_resurrections.set(0);
    for o in c.model.borrow_mut().objs.iter_mut() {
        o.upgraded_in_dtor = false;
        o.fin_this_op = false;
    }
    let r = catch_unwind(AssertUnwindSafe(|| apply(op)));
    unwind_fix_stack(0);
    drain_alloc();
    c.fault_at.set(NO_FAULT);
    let mut out = StepOutcome { crash_points: c.cp_count.get(), faulted: false, machinery_error: false };
    match r {
        Ok(()) => {
            if op.fault != NO_FAULT {
                // The fault point was not reached: the explorer asked for a crash point that does not exist
                v!("MACHINERY", "fault", "crash point {} of {:?} was not reached (only {} crash points)", op.fault, op, c.cp_count.get());
                out.machinery_error = true;
            }
        },
        Err(p) => {
            if is_injected(&*p) && c.fault_fired.get() {
                out.faulted = true;
                after_fault();
            } else {
                v!("ANY", "P-nopanic", "unexpected panic during {:?}: {}", op, payload_str(&*p));
            }
        },
    }
    if !has_violation() {
        post_op(op, out.faulted);
    }
    out
}

fn after_fault() {
    let c = ctx();
    match state::is_tracing() {
        Ok(false) => {},
        other => v!("C07", "P-idle", "is_tracing() = {:?} after the panic was caught", other),
    }
    let flags = hk::state_flags();
    if flags != (false, false, false) {
        v!("C07", "P-idle", "collector flags (collecting, finalizing, dropping) = {:?} after the panic was caught", flags);
    }
    let mut m = c.model.borrow_mut();
    m.faults += 1;
    m.held = None;
    m.inflight.clear();
    let live = m.live();
    for i in 0..m.objs.len() {
        // Any object existing now may have been involved in the unwound call: its count may stay too high
        m.objs[i].leaky = true;
        if live & (1 << i) == 0 {
            m.objs[i].limbo = true;
        }
    }
}

struct Walk {
    seen: Set,
}

fn walk(cc: &Cc<Node>, id: u8, w: &mut Walk, faults: u32) -> bool {
    let c = ctx();
    if w.seen & (1 << id) != 0 {
        return true;
    }
    w.seen |= 1 << id;
    let addr = hk::box_addr(cc);
    let (maddr, mcells, mfin, mdrop, fin_flag, dropped) = {
        let m = c.model.borrow();
        let o = &m.objs[id as usize];
        (o.addr, o.cells, o.fin_script, o.drop_script, o.fin_flag, o.dropped || o.freed || o.moved_out)
    };
    if dropped {
        v!("C01", "P-live", "reachable object #{} has been dropped or released", id);
        return false;
    }
    if addr != maddr {
        v!("C20", "P-ptr", "a handle to object #{} points to allocation {:#x}, the object lives at {:#x}", id, addr, maddr);
        return false;
    }
    match alloc::block(addr) {
        Some(b) if !b.freed && b.kind == alloc::Kind::CcBox => {},
        other => {
            v!("C01", "P-live", "the allocation of reachable object #{} is not live: {:?}", id, other);
            return false;
        },
    }
    let node: &Node = cc;
    if !node.canary_ok() || node.id != id {
        v!("C01", "P-live", "dereferencing reachable object #{} yields a corrupted value (id {}, canary {:#x})", id, node.id, node.canary);
        return false;
    }
    // Stable, aligned address through Deref / AsRef / Borrow
    let p1 = node as *const Node as usize;
    let p2 = <Cc<Node> as AsRef<Node>>::as_ref(cc) as *const Node as usize;
    let p3 = <Cc<Node> as std::borrow::Borrow<Node>>::borrow(cc) as *const Node as usize;
    if p1 != p2 || p1 != p3 || p1 % std::mem::align_of::<Node>() != 0 || p1 < addr || p1 + std::mem::size_of::<Node>() > addr + alloc::block(addr).map_or(0, |b| b.size) {
        v!("C20", "P-ptr", "Deref/AsRef/Borrow of object #{} give {:#x}/{:#x}/{:#x} (box at {:#x})", id, p1, p2, p3, addr);
        return false;
    }
    if node.home.get() != p1 {
        v!("C20", "P-ptr", "object #{} moved: created at {:#x}, now dereferences to {:#x}", id, node.home.get(), p1);
        return false;
    }
    if node.bag.try_borrow().map_or(0, |b| b.len()) as u32 != c.model.borrow().objs[id as usize].bag_self {
        v!("C01", "P-live", "object #{} lost part of its traced bag", id);
        return false;
    }
    if node.fin_script.get() != mfin || node.drop_script.get() != mdrop {
        v!("C01", "P-live", "object #{} lost its field values", id);
        return false;
    }
    let mc = c.model.borrow().count(id as usize);
    let leaky = c.model.borrow().objs[id as usize].leaky;
    let sc = cc.strong_count();
    if (!leaky && sc != mc) || sc < mc {
        v!("C04", "P-count", "strong_count() of object #{} is {} but {} Cc pointers to it exist", id, sc, mc);
        return false;
    }
    #[cfg(feature = "weak")]
    {
        let mw = c.model.borrow().weak_count(id as usize);
        let wc = cc.weak_count();
        if wc != mw {
            v!("C09", "P-wcnt", "Cc::weak_count() of object #{} is {} but {} Weak pointers to it exist", id, wc, mw);
            return false;
        }
    }
    #[cfg(feature = "fin")]
    {
        if cc.already_finalized() != fin_flag {
            if fin_flag && c.model.borrow().objs[id as usize].resurrected {
                v!("C06", "P-res", "resurrected object #{} reports already_finalized() = false: it would be finalized a second time", id);
            }
            v!("C05", "P-fin", "already_finalized() of object #{} is {} but the model says {}", id, cc.already_finalized(), fin_flag);
            return false;
        }
    }
    #[cfg(not(feature = "fin"))]
    let _ = fin_flag;
    for s in 0..S {
        let cell = match node.cells[s].try_borrow() {
            Ok(cell) => cell,
            Err(_) => continue,
        };
        match (cell.as_ref(), mcells[s]) {
            (None, None) => {},
            (Some(child), Some(t)) => {
                if !walk(child, t, w, faults) {
                    return false;
                }
            },
            (r, m) => {
                v!("C01", "P-live", "cell {} of object #{} is {} but the model says {:?}", s, id, if r.is_some() { "occupied" } else { "empty" }, m);
                return false;
            },
        }
    }
    true
}

fn post_op(op: Op, faulted: bool) {
    let c = ctx();
    let faults = c.model.borrow().faults;
    // A. idle at top level
    match state::is_tracing() {
        Ok(false) => {},
        other => v!("C12", "P-phase", "is_tracing() = {:?} at top level after {:?}", other, op),
    }
    let flags = hk::state_flags();
    if flags != (false, false, false) {
        v!("C12", "P-phase", "collector flags (collecting, finalizing, dropping) = {:?} at top level after {:?}", flags, op);
    }
    if has_violation() {
        return;
    }
    // B. walk everything reachable through real pointers
    let mut w = Walk { seen: 0 };
    let mut ok = true;
    for j in 0..MAXV {
        let h = c.vars[j].borrow();
        let id = c.model.borrow().vars[j];
        match (h.as_ref(), id) {
            (None, None) => {},
            (Some(cc), Some(id)) => {
                ok = ok && walk(cc, id, &mut w, faults);
            },
            _ => {
                v!("MACHINERY", "vars", "var {} out of sync with the model", j);
                ok = false;
            },
        }
        if !ok {
            return;
        }
    }
    {
        let h = c.g.borrow();
        let id = c.model.borrow().g;
        match (h.as_ref(), id) {
            (None, None) => {},
            (Some(cc), Some(id)) => {
                if !walk(cc, id, &mut w, faults) {
                    return;
                }
            },
            _ => {
                v!("MACHINERY", "vars", "G out of sync with the model");
                return;
            },
        }
    }
    // ptr_eq among program handles
    for i in 0..MAXV {
        for j in (i + 1)..MAXV {
            let (hi, hj) = (c.vars[i].borrow(), c.vars[j].borrow());
            if let (Some(x), Some(y)) = (hi.as_ref(), hj.as_ref()) {
                let same = c.model.borrow().vars[i] == c.model.borrow().vars[j];
                if Cc::ptr_eq(x, y) != same {
                    v!("C20", "P-ptr", "ptr_eq(v{}, v{}) = {} but the model says {}", i, j, Cc::ptr_eq(x, y), same);
                    return;
                }
            }
        }
    }
    let live = c.model.borrow().live();
    // C/D. reclamation by reference counting
    {
        let m = c.model.borrow();
        for i in 0..m.objs.len() {
            let o = &m.objs[i];
            if o.boxed && o.dropped && !o.freed && !o.moved_out && !o.limbo && !faulted {
                v!("C03", "P-once", "object #{} was dropped but its allocation was not released before the API call returned", i);
                return;
            }
            if o.boxed && o.value_alive() && !o.freed && !o.moved_out && !o.limbo && !o.leaky && !faulted && live & (1 << i) == 0 && m.count(i) == 0 {
                v!("C04", "P-count", "object #{} has no owner left but was not dropped before the API call returned", i);
                return;
            }
        }
    }
    // E. completeness of a quiescent collection
    if matches!(op.code, Code::Collect | Code::CollectHolding) && faults == 0 && c.fin_events.get() == c.fin_mark.get() && c.drop_events.get() == c.drop_mark.get() {
        let mr = c.model.borrow().must_reclaim();
        if mr != 0 {
            let prop = complete_prop(mr);
            v!(prop, "P-complete", "collect_cycles() ran no finalizer and no destructor but unreachable objects {:?} were not reclaimed", set_list(mr));
            return;
        }
    }
    // The configuration is per thread: what this thread reads back is what this thread set (defaults otherwise)
    #[cfg(feature = "auto")]
    if c.cfg.auto_lens {
        let (ma, mb) = {
            let m = c.model.borrow();
            (m.auto, m.buf_thr)
        };
        match rust_cc::config::config(|cf| (cf.auto_collect(), cf.adjustment_percent(), cf.buffered_objects_threshold().map_or(0, |x| x.get()))) {
            Ok((a, p, b)) => {
                if a != ma || b != mb as usize || p != 0.1 {
                    v!("C15", "P-policy", "configuration read back as (auto_collect {}, adjustment_percent {}, buffered threshold {}) but this thread set (auto_collect {}, adjustment_percent 0.1, buffered threshold {}): it was changed from elsewhere", a, p, b, ma, mb);
                    return;
                }
            },
            Err(e) => {
                v!("C15", "P-policy", "configuration not accessible at top level: {:?}", e);
                return;
            },
        }
    }
    // F. introspection
    let ab = state::allocated_bytes().unwrap_or(usize::MAX);
    if ab != alloc::live_box_bytes() {
        v!("C11", "P-intro", "allocated_bytes() = {} but the managed allocations that exist total {} bytes", ab, alloc::live_box_bytes());
        return;
    }
    let buf = match safe_buffer() {
        Ok(b) => b,
        Err(e) => {
            v!("C11", "P-intro", "{}", e);
            return;
        },
    };
    let bc = state::buffered_objects_count().unwrap_or(usize::MAX);
    if bc != buf.len() {
        v!("C11", "P-intro", "buffered_objects_count() = {} but the buffer holds {} objects", bc, buf.len());
        return;
    }
    {
        let m = c.model.borrow();
        let mut prev = 0usize;
        for (k, addr) in buf.iter().enumerate() {
            if buf[..k].contains(addr) {
                v!("C11", "P-intro", "allocation {:#x} is buffered twice", addr);
                return;
            }
            match alloc::block(*addr) {
                Some(b) if !b.freed && b.kind == alloc::Kind::CcBox => {},
                other => {
                    v!("C11", "P-intro", "the buffer contains {:#x} which is not a live managed allocation ({:?})", addr, other);
                    return;
                },
            }
            let s = unsafe { hk::snapshot_at(*addr) };
            if s.tracing_counter_raw >> 14 != 1 {
                v!("C11", "P-intro", "buffered allocation {:#x} is not marked as buffered (mark {})", addr, s.tracing_counter_raw >> 14);
                return;
            }
            if s.prev != prev || s.next != buf.get(k + 1).copied().unwrap_or(0) {
                v!("C11", "P-intro", "buffer links are inconsistent at position {}", k);
                return;
            }
            prev = *addr;
        }
        // every live managed object that is not buffered must be unmarked and unlinked
        for i in 0..m.objs.len() {
            let o = &m.objs[i];
            if o.box_alive() && !buf.contains(&o.addr) {
                let s = unsafe { hk::snapshot_at(o.addr) };
                if s.tracing_counter_raw >> 14 != 0 || s.next != 0 || s.prev != 0 {
                    v!("C11", "P-intro", "object #{} is not buffered but is marked {} / linked ({:#x}, {:#x})", i, s.tracing_counter_raw >> 14, s.next, s.prev);
                    return;
                }
            }
        }
        if c.cfg.exact_buffer && faults == 0 {
            for i in 0..m.objs.len() {
                let o = &m.objs[i];
                if o.box_alive() && o.value_alive() {
                    let real = buf.contains(&o.addr);
                    if real != o.buffered {
                        v!("C11", "P-intro", "object #{} is {} but should be {} after {:?}", i, if real { "buffered" } else { "not buffered" }, if o.buffered { "buffered" } else { "not buffered" }, op);
                        return;
                    }
                }
            }
        }
    }
    // G. weak counts and side records
    #[cfg(feature = "weak")]
    {
        let n = c.model.borrow().objs.len();
        for i in 0..n {
            let (box_alive, addr, side) = {
                let m = c.model.borrow();
                (m.objs[i].box_alive(), m.objs[i].addr, m.objs[i].side)
            };
            let mut side = side;
            if box_alive {
                let s = unsafe { hk::snapshot_at(addr) };
                if s.metadata_addr != 0 {
                    if side != 0 && side != s.metadata_addr {
                        v!("C09", "P-wcnt", "the side record of object #{} moved", i);
                        return;
                    }
                    side = s.metadata_addr;
                    c.model.borrow_mut().objs[i].side = side;
                }
            }
            if side != 0 {
                let wc = c.model.borrow().weak_count(i);
                let needed = box_alive || wc > 0;
                match alloc::block(side) {
                    Some(b) if b.kind == alloc::Kind::Side => {
                        if b.freed && needed {
                            v!("C09", "P-wcnt", "the side record of object #{} was released although {}", i, if box_alive { "its allocation still exists" } else { "Weak pointers to it still exist" });
                            return;
                        }
                        if !b.freed && !needed && !faulted && !c.model.borrow().objs[i].limbo {
                            v!("C09", "P-wcnt", "the side record of object #{} was not released although the allocation and every Weak are gone", i);
                            return;
                        }
                    },
                    other => {
                        v!("C09", "P-wcnt", "the side record of object #{} is not a crate side allocation: {:?}", i, other);
                        return;
                    },
                }
            }
        }
        for j in 0..MAXW {
            let h = c.wvars[j].borrow();
            let t = c.model.borrow().wvars[j];
            match (h.as_ref(), t) {
                (None, None) => {},
                (Some(w), Some(WRef::Dangling)) => {
                    if w.weak_count() != 0 || w.strong_count() != 0 {
                        v!("C09", "P-wcnt", "a Weak created by Weak::new() reports counts ({}, {})", w.strong_count(), w.weak_count());
                        return;
                    }
                },
                (Some(w), Some(WRef::Obj(t))) => {
                    let m = c.model.borrow();
                    let t = t as usize;
                    let wc = m.weak_count(t);
                    if w.weak_count() != wc {
                        v!("C09", "P-wcnt", "Weak::weak_count() for object #{} is {} but {} Weak pointers to it exist", t, w.weak_count(), wc);
                        return;
                    }
                    let o = &m.objs[t];
                    let alive = o.boxed && o.value_alive() && !o.freed && !o.moved_out && !o.cyclic_failed;
                    let expect = if alive { m.count(t) } else { 0 };
                    let sc = w.strong_count();
                    let okc = if o.limbo { sc == 0 || sc >= expect } else if o.leaky { sc >= expect && (alive || sc == 0) } else { sc == expect };
                    if !okc {
                        // near the limit a wrong answer is a counter/sentinel collision: C16 owns it
                        let prop = if expect + 4 >= STRONG_MAX { "C16" } else { "C09" };
                        v!(prop, "P-wcnt", "Weak::strong_count() for object #{} is {} but {} Cc pointers to it exist (alive: {})", t, sc, expect, alive);
                        return;
                    }
                },
                _ => {
                    v!("MACHINERY", "vars", "wvar {} out of sync with the model", j);
                    return;
                },
            }
        }
    }
    // H. cleaning actions
    #[cfg(feature = "cleaners")]
    if faults == 0 {
        let m = c.model.borrow();
        for (k, a) in m.actions.iter().enumerate() {
            let o = &m.objs[a.owner as usize];
            if (o.glue_done || a.cleaned) && a.runs != 1 {
                v!("C10", "P-clean", "cleaning action #{} has run {} times although {}", k, a.runs, if a.cleaned { "clean() was called on it" } else { "its Cleaner has been dropped" });
                return;
            }
        }
    }
}

/// An unreclaimed object whose reference count sits at the limit makes the failure C16's ("the object remains correctly
/// managed afterwards: it can still be collected")
fn complete_prop(mr: Set) -> &'static str {
    let c = ctx();
    let m = c.model.borrow();
    if set_list(mr).iter().any(|i| m.count(*i) + 4 >= STRONG_MAX) {
        "C16"
    } else {
        "C02"
    }
}

fn set_list(s: Set) -> Vec<usize> {
    (0..16).filter(|i| s & (1 << i) != 0).collect()
}

// ------------------------------------------------------------------------------------------------
// Epilogue probe: tear the world down through the library and demand completeness
// ------------------------------------------------------------------------------------------------

pub fn epilogue() -> Vec<Op> {
    let c = ctx();
    c.in_epilogue.set(true);
    let mut done: Vec<Op> = Vec::new();
    macro_rules! run {
        ($op:expr) => {{
            let op = $op;
            done.push(op);
            step(op);
            if has_violation() {
                return done;
            }
        }};
    }
    for j in 0..MAXC {
        if c.model.borrow().cvars[j].is_some() {
            run!(Op::new(Code::DropCleanable, j as u8, 0, 0));
        }
    }
    let bound = 2 * c.cfg.nobj + 4;
    let mut rounds = 0;
    loop {
        let mut progressed = false;
        for j in 0..MAXV {
            if c.model.borrow().vars[j].is_some() {
                run!(Op::new(Code::Drop, j as u8, 0, 0));
                progressed = true;
            }
        }
        if c.model.borrow().g.is_some() {
            run!(Op::new(Code::DropG, 0, 0, 0));
            progressed = true;
        }
        if !c.stash.borrow().is_empty() {
            run!(Op::new(Code::DropStash, 0, 0, 0));
            progressed = true;
        }
        let ev = (c.fin_events.get(), c.drop_events.get(), c.action_events.get());
        run!(Op::new(Code::Collect, 0, 0, 0));
        if ev != (c.fin_events.get(), c.drop_events.get(), c.action_events.get()) {
            progressed = true;
        }
        // scripts may have stored handles again
        let refilled = c.model.borrow().g.is_some() || c.model.borrow().vars.iter().any(|v| v.is_some());
        if !progressed && !refilled {
            break;
        }
        rounds += 1;
        if rounds > bound {
            v!("C06", "P-res", "tearing the heap down did not reach a quiescent state within {} collections", bound);
            return done;
        }
    }
    let faults = c.model.borrow().faults;
    if faults == 0 {
        let mr = c.model.borrow().must_reclaim();
        if mr != 0 {
            let prop = complete_prop(mr);
            v!(prop, "P-complete", "after dropping every handle and collecting until quiescence, unreachable objects {:?} were not reclaimed", set_list(mr));
            return done;
        }
        // Everything still allocated must be pinned through an untraced field (must_reclaim excludes exactly those)
    }
    #[cfg(feature = "weak")]
    {
        for j in 0..MAXW {
            let t = c.model.borrow().wvars[j];
            if let Some(t) = t {
                let res = {
                    let w = c.wvars[j].borrow();
                    checked_upgrade(w.as_ref().unwrap(), t)
                };
                if has_violation() {
                    return done;
                }
                if let (Some(cc), WRef::Obj(t)) = (res, t) {
                    api_drop_counted(cc, t);
                }
                run!(Op::new(Code::DropWeak, j as u8, 0, 0));
            }
        }
        if !c.wstash.borrow().is_empty() {
            run!(Op::new(Code::DropStash, 0, 0, 0));
        }
    }
    done
}

// ------------------------------------------------------------------------------------------------
// Canonical state key and summary (what the explorer needs to enumerate successors)
// ------------------------------------------------------------------------------------------------

#[derive(Clone, Copy, Debug, Default, PartialEq, Eq)]
pub struct VarInfo {
    pub some: bool,
    pub id: u8,
    pub cells: [bool; S],
    pub wcell: bool,
    pub fin_script: u8,
    pub drop_script: u8,
    pub strong: u32,
    pub weak: u32,
    /// 0 = empty traced bag, 1 = references to itself, 2 + id = references to object id
    pub bag: u8,
}

#[derive(Clone, Copy, Debug, Default)]
pub struct Summary {
    pub nobjs: u8,
    pub vars: [VarInfo; MAXV],
    pub g: bool,
    pub wvars: [u8; MAXW], // 0 empty, 1 dangling, 2 object
    pub wvar_target: [u8; MAXW],
    pub wvar_strong: [u32; MAXW],
    pub wvar_weak: [u32; MAXW],
    pub cvars: [bool; MAXC],
    pub nactions: u8,
    pub faults: u8,
    pub auto: bool,
    pub buf_thr: u8,
    pub stash: bool,
    pub buffered: u8,
}

pub fn summary() -> Summary {
    let c = ctx();
    let m = c.model.borrow();
    let mut s = Summary { nobjs: m.objs.len() as u8, g: m.g.is_some(), nactions: m.actions.len() as u8, faults: m.faults as u8, auto: m.auto, buf_thr: m.buf_thr, ..Default::default() };
    for j in 0..MAXV {
        if let Some(id) = m.vars[j] {
            let o = &m.objs[id as usize];
            s.vars[j] = VarInfo {
                some: true,
                id,
                cells: [o.cells[0].is_some(), o.cells[1].is_some(), o.cells[2].is_some()],
                wcell: o.wcell.is_some(),
                fin_script: o.fin_script,
                drop_script: o.drop_script,
                strong: m.count(id as usize),
                weak: m.weak_count(id as usize),
                bag: if o.bag_self == 0 { 0 } else if o.bag_target == 0xFF { 1 } else { 2 + o.bag_target },
            };
        }
    }
    for j in 0..MAXW {
        match m.wvars[j] {
            None => {},
            Some(WRef::Dangling) => s.wvars[j] = 1,
            Some(WRef::Obj(t)) => {
                s.wvars[j] = 2;
                s.wvar_target[j] = t;
                let o = &m.objs[t as usize];
                let alive = o.boxed && o.value_alive() && !o.freed && !o.moved_out && !o.cyclic_failed;
                s.wvar_strong[j] = if alive { m.count(t as usize) } else { 0 };
                s.wvar_weak[j] = m.weak_count(t as usize);
            },
        }
    }
    for j in 0..MAXC {
        s.cvars[j] = m.cvars[j].is_some();
    }
    s.stash = m.stash_strong.iter().any(|n| *n > 0) || m.stash_weak.iter().any(|n| *n > 0);
    s.buffered = state::buffered_objects_count().unwrap_or(0).min(255) as u8;
    s
}

fn mix64(mut h: u64, x: u64) -> u64 {
    h ^= x;
    h = h.wrapping_mul(0x9E37_79B9_7F4A_7C15);
    h ^= h >> 29;
    h
}

pub fn hash128(bytes: &[u8]) -> u128 {
    // Two independent 64-bit hashes
    let mut a: u64 = 0xcbf2_9ce4_8422_2325;
    let mut b: u64 = 0x6c62_272e_07bb_0142;
    for chunk in bytes.chunks(8) {
        let mut w = [0u8; 8];
        w[..chunk.len()].copy_from_slice(chunk);
        let x = u64::from_le_bytes(w);
        a = mix64(a, x);
        b = (b ^ x).wrapping_mul(0x0000_0100_0000_01B3).rotate_left(23) ^ (x >> 7);
    }
    a = mix64(a, bytes.len() as u64);
    b = mix64(b, 0x5bd1_e995 ^ bytes.len() as u64);
    ((a as u128) << 64) | b as u128
}

/// Serialises the canonical state into `out`
pub fn canonical_key(out: &mut Vec<u8>) {
    let c = ctx();
    let m = c.model.borrow();
    let n = m.objs.len();
    let buf = safe_buffer().unwrap_or_default();
    let mut name = [0xFFu8; MAXOBJ];
    let mut order: Vec<u8> = Vec::with_capacity(n);
    fn visit(m: &Model, start: u8, name: &mut [u8; MAXOBJ], order: &mut Vec<u8>) {
        let mut st = vec![start];
        while let Some(o) = st.pop() {
            if name[o as usize] != 0xFF {
                continue;
            }
            name[o as usize] = order.len() as u8;
            order.push(o);
            let ob = &m.objs[o as usize];
            let mut next: Vec<u8> = Vec::new();
            if ob.constructed && !ob.dropped {
                for s in 0..S {
                    if let Some(t) = ob.cells[s] {
                        next.push(t);
                    }
                }
            }
            if !ob.glue_done {
                if let Some(WRef::Obj(t)) = ob.wcell {
                    next.push(t);
                }
            }
            for a in &m.actions {
                if a.owner == o && a.pending {
                    if let Some(t) = a.captured {
                        next.push(t);
                    }
                    if let Some(t) = a.captured_weak {
                        next.push(t);
                    }
                }
            }
            for t in next.into_iter().rev() {
                st.push(t);
            }
        }
    }
    for v in m.vars.iter().flatten() {
        visit(&m, *v, &mut name, &mut order);
    }
    if let Some(g) = m.g {
        visit(&m, g, &mut name, &mut order);
    }
    for w in m.wvars.iter().flatten() {
        if let WRef::Obj(t) = w {
            visit(&m, *t, &mut name, &mut order);
        }
    }
    for addr in &buf {
        for i in 0..n {
            if m.objs[i].box_alive() && m.objs[i].addr == *addr {
                visit(&m, i as u8, &mut name, &mut order);
            }
        }
    }
    for i in 0..n {
        let o = &m.objs[i];
        let relevant = o.box_alive() || m.stash_strong[i] > 0 || m.stash_weak[i] > 0 || (o.map_addr != 0 && !o.map_freed);
        if relevant {
            visit(&m, i as u8, &mut name, &mut order);
        }
    }
    let nm = |x: Option<u8>| -> u8 { x.map_or(0xFE, |t| name[t as usize]) };
    let wr = |x: Option<WRef>| -> u8 {
        match x {
            None => 0xFE,
            Some(WRef::Dangling) => 0xFD,
            Some(WRef::Obj(t)) => name[t as usize],
        }
    };
    out.push(n.min(c.cfg.nobj) as u8);
    out.push(m.faults as u8);
    out.push(m.auto as u8);
    out.push(m.buf_thr);
    for j in 0..MAXV {
        out.push(nm(m.vars[j]));
    }
    out.push(nm(m.g));
    for j in 0..MAXW {
        out.push(wr(m.wvars[j]));
    }
    for j in 0..MAXC {
        out.push(m.cvars[j].unwrap_or(0xFE));
    }
    out.push(0xAA);
    for o in &order {
        let i = *o as usize;
        let ob = &m.objs[i];
        let flags: u16 = (ob.boxed as u16)
            | (ob.constructed as u16) << 1
            | (ob.dropped as u16) << 2
            | (ob.glue_done as u16) << 3
            | (ob.freed as u16) << 4
            | (ob.moved_out as u16) << 5
            | (ob.fin_flag as u16) << 6
            | (ob.limbo as u16) << 7
            | (ob.cyclic_failed as u16) << 8
            | ((ob.map_addr != 0 && !ob.map_freed) as u16) << 9
            | (ob.leaky as u16) << 10
            | (ob.resurrected as u16) << 11;
        out.extend_from_slice(&flags.to_le_bytes());
        out.push(ob.fin_script);
        out.push(ob.drop_script);
        for s in 0..S {
            out.push(if ob.constructed && !ob.dropped { nm(ob.cells[s]) } else { 0xFE });
        }
        out.push(if ob.glue_done { 0xFE } else { wr(ob.wcell) });
        out.extend_from_slice(&(ob.bag_self as u16).to_le_bytes());
        out.push(if ob.bag_self == 0 || ob.bag_target == 0xFF { 0xFF } else { nm(Some(ob.bag_target)) });
        out.extend_from_slice(&(m.stash_strong[i] as u16).to_le_bytes());
        out.extend_from_slice(&(m.stash_weak[i] as u16).to_le_bytes());
        if ob.box_alive() {
            let s = unsafe { hk::snapshot_at(ob.addr) };
            out.extend_from_slice(&s.counter_raw.to_le_bytes());
            out.extend_from_slice(&s.tracing_counter_raw.to_le_bytes());
            out.extend_from_slice(&s.weak_raw.unwrap_or(0xFFFF).to_le_bytes());
            out.push((s.next != 0) as u8 | ((s.prev != 0) as u8) << 1);
        } else {
            // Only the weak side record may still exist
            out.extend_from_slice(&(m.weak_count(i) as u16).to_le_bytes());
        }
        if ob.map_addr != 0 && !ob.map_freed {
            let s = unsafe { hk::snapshot_at(ob.map_addr) };
            out.extend_from_slice(&s.counter_raw.to_le_bytes());
            out.extend_from_slice(&s.tracing_counter_raw.to_le_bytes());
            out.extend_from_slice(&s.weak_raw.unwrap_or(0xFFFF).to_le_bytes());
        }
    }
    out.push(0xBB);
    for a in &m.actions {
        out.push(name[a.owner as usize]);
        out.push(a.kind);
        out.push(nm(a.captured));
        out.push(nm(a.captured_weak));
        out.push(a.runs.min(255) as u8);
        out.push(a.pending as u8 | (a.cleaned as u8) << 1);
        out.push(a.cvar.unwrap_or(0xFE));
    }
    out.push(0xCC);
    for addr in &buf {
        let mut tag = 0xF0u8;
        for i in 0..n {
            if m.objs[i].box_alive() && m.objs[i].addr == *addr {
                tag = name[i];
            } else if m.objs[i].map_addr == *addr && !m.objs[i].map_freed {
                tag = 0x80 | name[i];
            }
        }
        out.push(tag);
    }
    if c.cfg.auto_lens {
        out.push(0xDD);
        out.extend_from_slice(&(state::allocated_bytes().unwrap_or(0) as u32).to_le_bytes());
        #[cfg(feature = "auto")]
        out.extend_from_slice(&(hk::bytes_threshold().unwrap_or(0) as u32).to_le_bytes());
    }
}

// ------------------------------------------------------------------------------------------------
// Successor enumeration
// ------------------------------------------------------------------------------------------------

pub fn has_code(cfg: &LensCfg, code: Code) -> bool {
    cfg.codes & (1u64 << code as u8) != 0
}

pub fn enabled(s: &Summary, cfg: &LensCfg, out: &mut Vec<Op>) {
    out.clear();
    let nv = cfg.nvars;
    let ev = (0..nv).find(|j| !s.vars[*j].some);
    let ew = (0..cfg.nw).find(|j| s.wvars[*j] == 0);
    let ec = (0..cfg.nc).find(|j| !s.cvars[*j]);
    let can_alloc = (s.nobjs as usize) < cfg.nobj;
    let cell_ok = |b: usize| -> bool { (b < T && b < cfg.ncells) || (b == T && cfg.ucell) };
    let on = |code: Code| has_code(cfg, code);
    if let Some(e) = ev {
        if can_alloc && on(Code::New) {
            out.push(Op::new(Code::New, e as u8, 0, 0));
        }
        if can_alloc && on(Code::NewOwning) && cfg.max_faults == 0 {
            // (the destination may be the source variable itself: it is emptied first)
            for j in 0..nv {
                if s.vars[j].some {
                    out.push(Op::new(Code::NewOwning, e as u8, j as u8, 0));
                }
            }
        }
        if can_alloc && on(Code::NewCyclic) {
            for k in &cfg.closure_menu {
                out.push(Op::new(Code::NewCyclic, e as u8, *k, 0));
            }
        }
        if s.g && on(Code::TakeG) {
            out.push(Op::new(Code::TakeG, e as u8, 0, 0));
        }
    }
    if s.g && on(Code::DropG) {
        out.push(Op::new(Code::DropG, 0, 0, 0));
    }
    for a in 0..nv {
        let va = &s.vars[a];
        if !va.some {
            continue;
        }
        let a8 = a as u8;
        if on(Code::Drop) {
            out.push(Op::new(Code::Drop, a8, 0, 0));
        }
        if on(Code::MarkAlive) {
            out.push(Op::new(Code::MarkAlive, a8, 0, 0));
        }
        if let Some(e) = ev {
            if on(Code::Dup) {
                out.push(Op::new(Code::Dup, a8, e as u8, 0));
            }
            for b in 0..S {
                if cell_ok(b) && va.cells[b] {
                    if on(Code::Load) {
                        out.push(Op::new(Code::Load, a8, b as u8, e as u8));
                    }
                    if on(Code::Take) {
                        out.push(Op::new(Code::Take, a8, b as u8, e as u8));
                    }
                }
            }
        }
        for b in 0..S {
            if !cell_ok(b) {
                continue;
            }
            if !va.cells[b] && on(Code::Store) {
                for src in 0..nv {
                    if src != a && s.vars[src].some {
                        out.push(Op::new(Code::Store, a8, b as u8, src as u8));
                    }
                }
            }
            if b < T && va.cells[b] && on(Code::CollectHolding) {
                out.push(Op::new(Code::CollectHolding, a8, b as u8, 0));
            }
        }
        if on(Code::PutG) && !s.g {
            out.push(Op::new(Code::PutG, a8, 0, 0));
        }
        if on(Code::SetFin) && va.fin_script == 0 {
            for k in &cfg.fin_menu {
                if *k != 0 {
                    out.push(Op::new(Code::SetFin, a8, *k, 0));
                }
            }
        }
        if on(Code::SetDrop) && va.drop_script == 0 {
            for k in &cfg.drop_menu {
                if *k != 0 {
                    out.push(Op::new(Code::SetDrop, a8, *k, 0));
                }
            }
        }
        if on(Code::FinalizeAgain) {
            out.push(Op::new(Code::FinalizeAgain, a8, 0, 0));
        }
        if on(Code::TryUnwrap) {
            out.push(Op::new(Code::TryUnwrap, a8, 0, 0));
        }
        if let Some(w) = ew {
            if on(Code::Downgrade) && va.weak < WEAK_MAX {
                out.push(Op::new(Code::Downgrade, a8, w as u8, 0));
            }
            if on(Code::TakeWeak) && va.wcell {
                out.push(Op::new(Code::TakeWeak, a8, w as u8, 0));
            }
        }
        if on(Code::StoreWeak) && !va.wcell {
            for w in 0..cfg.nw {
                if s.wvars[w] != 0 {
                    out.push(Op::new(Code::StoreWeak, a8, w as u8, 0));
                }
            }
        }
        if let Some(cv) = ec {
            if on(Code::Register) && (s.nactions as usize) < cfg.max_actions {
                for k in &cfg.action_menu {
                    let kind = ActionKind::from_u8(*k);
                    let needs_other = matches!(kind, ActionKind::DropCapturedCc | ActionKind::UpgradeNeighbourWeak);
                    let has_other = (0..nv).any(|j| j != a && s.vars[j].some && s.vars[j].id != va.id);
                    if needs_other && !has_other {
                        continue;
                    }
                    out.push(Op::new(Code::Register, a8, *k, cv as u8));
                }
            }
        }
        // Saturation lens
        if on(Code::FillStrong) && !s.stash {
            for k in 0..=cfg.sat_k {
                out.push(Op::new(Code::FillStrong, a8, k, 0));
            }
        }
        if on(Code::FillBag) && !s.stash && va.strong < STRONG_MAX - cfg.sat_k as u32 - 2 && va.bag <= 1 {
            for k in 0..=cfg.sat_k {
                out.push(Op::new(Code::FillBag, a8, k, 0));
            }
        }
        // ... or with references to another object (every Cc of that object but the program's handles is then traced)
        if on(Code::FillBag) && !s.stash {
            for t in 0..nv {
                let vt = s.vars[t];
                if t != a && vt.some && vt.id != va.id && vt.strong < STRONG_MAX - cfg.sat_k as u32 - 2 && (va.bag == 0 || va.bag == 2 + vt.id) {
                    for k in 0..=cfg.sat_k {
                        out.push(Op::new(Code::FillBag, a8, k, 1 + t as u8));
                        out.push(Op::new(Code::FillBag, a8, k, 1 + MAXV as u8 + t as u8));
                    }
                }
            }
        }
        if on(Code::FillWeak) && !s.stash {
            for k in 0..=cfg.sat_k {
                out.push(Op::new(Code::FillWeak, a8, k, 0));
            }
        }
    }
    // Cloning at saturation: replace the plain operations by their expect-panic variants
    if on(Code::CloneExpectPanic) {
        for op in out.iter_mut() {
            match op.code {
                Code::Dup if s.vars[op.a as usize].strong >= STRONG_MAX => *op = Op::new(Code::CloneExpectPanic, op.a, 0, 0),
                Code::Downgrade if s.vars[op.a as usize].weak >= WEAK_MAX => *op = Op::new(Code::DowngradeExpectPanic, op.a, 0, 0),
                _ => {},
            }
        }
    }
    for w in 0..cfg.nw {
        if s.wvars[w] == 0 {
            continue;
        }
        let w8 = w as u8;
        // strong/weak counts of the target if a var holds it
        let sat_strong = s.wvars[w] == 2 && s.wvar_strong[w] >= STRONG_MAX;
        let sat_weak = s.wvars[w] == 2 && s.wvar_weak[w] >= WEAK_MAX;
        if let Some(e) = ev {
            if on(Code::Upgrade) {
                if sat_strong && on(Code::UpgradeExpectPanic) {
                    out.push(Op::new(Code::UpgradeExpectPanic, w8, 0, 0));
                } else if !sat_strong {
                    out.push(Op::new(Code::Upgrade, w8, e as u8, 0));
                }
            }
        }
        if let Some(e) = ew {
            if on(Code::DupWeak) {
                if sat_weak && on(Code::DupWeakExpectPanic) {
                    out.push(Op::new(Code::DupWeakExpectPanic, w8, 0, 0));
                } else if !sat_weak {
                    out.push(Op::new(Code::DupWeak, w8, e as u8, 0));
                }
            }
        }
        if on(Code::DropWeak) {
            out.push(Op::new(Code::DropWeak, w8, 0, 0));
        }
    }
    if let Some(w) = ew {
        if on(Code::WeakNew) {
            out.push(Op::new(Code::WeakNew, w as u8, 0, 0));
        }
    }
    for cv in 0..cfg.nc {
        if s.cvars[cv] {
            if on(Code::Clean) {
                out.push(Op::new(Code::Clean, cv as u8, 0, 0));
            }
            if on(Code::DropCleanable) {
                out.push(Op::new(Code::DropCleanable, cv as u8, 0, 0));
            }
        }
    }
    if on(Code::Collect) {
        out.push(Op::new(Code::Collect, 0, 0, 0));
    }
    if on(Code::SetAuto) {
        out.push(Op::new(Code::SetAuto, !s.auto as u8, 0, 0));
    }
    if on(Code::SetBufThr) {
        for k in [0u8, 1, 2] {
            if k != s.buf_thr {
                out.push(Op::new(Code::SetBufThr, k, 0, 0));
            }
        }
    }
    if s.stash && on(Code::DropStash) {
        out.push(Op::new(Code::DropStash, 0, 0, 0));
    }
}
