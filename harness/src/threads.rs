//! C19: per-thread independence and thread teardown.
//!
//! (a) `interleave`: small per-thread programs run on real OS threads under a baton scheduler that releases
//!     exactly one thread for exactly one API operation at a time; ALL interleavings of each program tuple are
//!     enumerated. Oracle: every thread's own world oracles, and its canonical state key after every step must
//!     equal the key of the same step of its solo run (the key contains every hidden collector word, the
//!     counters and the configuration, so any cross-thread influence shows).
//! (b) `teardown`: one scenario per process (see `teardown_scenario`), enumerated by the driver.

use std::sync::mpsc::{channel, Receiver, Sender};

use rust_cc::verif_hooks as hk;

use crate::alloc;
use crate::explore::warm_up_thread;
use crate::lens;
use crate::ops::Code::*;
use crate::ops::*;
use crate::world::{self, Ctx, LensCfg, Violation};

enum Cmd {
    Begin,
    Step(Op),
    End,
    Quit,
}

struct Reply {
    key: u128,
    violations: Vec<Violation>,
}

fn worker(cfg: LensCfg, rx: Receiver<Cmd>, tx: Sender<Reply>) {
    warm_up_thread();
    let mut ctxp: *mut Ctx = std::ptr::null_mut();
    loop {
        match rx.recv() {
            Ok(Cmd::Begin) => {
                hk::reset_thread_state();
                hk::set_alloc_observer(Some(world::alloc_observer));
                #[cfg(feature = "auto")]
                let _ = rust_cc::config::config(|c| c.set_auto_collect(true));
                alloc::begin();
                ctxp = Box::into_raw(Box::new(Ctx::new(cfg.clone())));
                world::install_ctx(ctxp);
                world::ctx().model.borrow_mut().auto = cfg!(feature = "auto");
                // Outside a step nothing may be registered: the channel machinery (parking tokens cached in
                // thread-locals) allocates lazily and must survive the window
                alloc::set_tracking(false);
                let _ = tx.send(Reply { key: 0, violations: vec![] });
            },
            Ok(Cmd::Step(op)) => {
                alloc::set_tracking(true);
                let r = std::panic::catch_unwind(std::panic::AssertUnwindSafe(|| {
                    world::step(op);
                    let mut kb: Vec<u8> = Vec::with_capacity(256);
                    world::canonical_key(&mut kb);
                    // executions_count is part of what a thread may observe of its own collector
                    kb.extend_from_slice(&(rust_cc::state::executions_count().unwrap_or(0) as u32).to_le_bytes());
                    world::hash128(&kb)
                }));
                alloc::set_tracking(false);
                let c = world::ctx();
                // The reply outlives the execution window: build it with tracking off
                let reply = alloc::untracked(|| {
                    let (key, mut vs) = match r {
                        Ok(k) => (k, Vec::new()),
                        Err(_) => (0, vec![Violation { prop: "ANY", pred: "P-nopanic", msg: "panic while stepping a thread program".to_string() }]),
                    };
                    vs.extend(c.violations.borrow().iter().cloned());
                    Reply { key, violations: vs }
                });
                let _ = tx.send(reply);
            },
            Ok(Cmd::End) => {
                world::install_ctx(std::ptr::null());
                hk::set_alloc_observer(None);
                hk::reset_thread_state();
                alloc::end();
                let _ = ctxp;
                let _ = tx.send(Reply { key: 0, violations: vec![] });
            },
            Ok(Cmd::Quit) | Err(_) => break,
        }
    }
}

/// Pool of per-thread programs: each hits some of the three thread-locals (buffer, state counters, configuration)
pub fn programs() -> Vec<(&'static str, Vec<Op>)> {
    let o = Op::new;
    vec![
        ("buffer an object", vec![o(New, 0, 0, 0), o(Dup, 0, 1, 0), o(Drop, 0, 0, 0), o(Collect, 0, 0, 0)]),
        ("self cycle collected", vec![o(New, 0, 0, 0), o(Dup, 0, 1, 0), o(Store, 0, 0, 1), o(Drop, 0, 0, 0), o(Collect, 0, 0, 0)]),
        ("garbage left buffered", vec![o(New, 0, 0, 0), o(Dup, 0, 1, 0), o(Store, 0, 0, 1), o(Drop, 0, 0, 0)]),
        ("auto off then allocate", vec![o(SetAuto, 0, 0, 0), o(New, 0, 0, 0), o(New, 1, 0, 0), o(Drop, 0, 0, 0)]),
        ("auto on: allocations trigger collections", vec![o(New, 0, 0, 0), o(New, 1, 0, 0), o(New, 2, 0, 0), o(Drop, 1, 0, 0)]),
        ("buffered threshold", vec![o(SetBufThr, 1, 0, 0), o(New, 0, 0, 0), o(Dup, 0, 1, 0), o(Drop, 1, 0, 0), o(New, 1, 0, 0)]),
        ("two objects, chain, rc release", vec![o(New, 0, 0, 0), o(New, 1, 0, 0), o(Store, 0, 0, 1), o(Drop, 0, 0, 0)]),
        ("mark alive", vec![o(New, 0, 0, 0), o(Dup, 0, 1, 0), o(Drop, 1, 0, 0), o(MarkAlive, 0, 0, 0), o(Collect, 0, 0, 0)]),
        ("collect only", vec![o(Collect, 0, 0, 0), o(Collect, 0, 0, 0)]),
        ("two-cycle", vec![o(New, 0, 0, 0), o(New, 1, 0, 0), o(Dup, 0, 2, 0), o(Store, 1, 0, 2), o(Store, 0, 0, 1), o(Drop, 0, 0, 0), o(Collect, 0, 0, 0)]),
    ]
}

pub struct InterleaveResult {
    pub schedules: u64,
    pub steps: u64,
    pub tuples: u64,
    pub found: Vec<(String, Vec<Violation>)>,
    pub samples: Vec<String>,
    pub distinct_outcomes: usize,
}

fn all_interleavings(lens: &[usize]) -> Vec<Vec<usize>> {
    fn rec(rem: &mut Vec<usize>, cur: &mut Vec<usize>, out: &mut Vec<Vec<usize>>) {
        if rem.iter().all(|x| *x == 0) {
            out.push(cur.clone());
            return;
        }
        for i in 0..rem.len() {
            if rem[i] > 0 {
                rem[i] -= 1;
                cur.push(i);
                rec(rem, cur, out);
                cur.pop();
                rem[i] += 1;
            }
        }
    }
    let mut out = Vec::new();
    rec(&mut lens.to_vec(), &mut Vec::new(), &mut out);
    out
}

pub fn interleave(max_threads: usize, pair_len: usize, triple_len: usize, thorough: bool) -> InterleaveResult {
    let la = lens::LensArgs { name: "auto".to_string(), n: 3, v: 3, w: 1, c: 1, cells: 2, ucell: true, faults: 0, fault_kinds: 0, fin_menu: None, drop_menu: None, closure_menu: None, action_menu: None, max_actions: 0, sat_k: 0, no_epilogue: true };
    let mut cfg = lens::build(&la);
    cfg.exact_buffer = false;
    let nthreads = max_threads.max(3);
    let mut txs: Vec<Sender<Cmd>> = Vec::new();
    let mut rxs: Vec<Receiver<Reply>> = Vec::new();
    let mut handles = Vec::new();
    for _ in 0..nthreads {
        let (ctx_tx, ctx_rx) = channel::<Cmd>();
        let (rep_tx, rep_rx) = channel::<Reply>();
        let cfg2 = cfg.clone();
        handles.push(std::thread::spawn(move || worker(cfg2, ctx_rx, rep_tx)));
        txs.push(ctx_tx);
        rxs.push(rep_rx);
    }
    let progs = programs();
    let mut res = InterleaveResult { schedules: 0, steps: 0, tuples: 0, found: vec![], samples: vec![], distinct_outcomes: 0 };
    let mut outcomes: std::collections::HashSet<u128> = Default::default();
    // solo keys: program p on thread 0
    let mut solo: Vec<Vec<u128>> = Vec::new();
    for (name, p) in &progs {
        txs[0].send(Cmd::Begin).unwrap();
        rxs[0].recv().unwrap();
        let mut keys = Vec::new();
        for op in p {
            txs[0].send(Cmd::Step(*op)).unwrap();
            let r = rxs[0].recv().unwrap();
            if !r.violations.is_empty() {
                res.found.push((format!("solo run of '{}'", name), r.violations));
            }
            keys.push(r.key);
            res.steps += 1;
        }
        txs[0].send(Cmd::End).unwrap();
        rxs[0].recv().unwrap();
        solo.push(keys);
    }
    if !res.found.is_empty() {
        return res;
    }
    // run one schedule of a tuple of (program index) on threads 0..k
    let mut run_schedule = |tuple: &[usize], lens: &[usize], sched: &[usize], res: &mut InterleaveResult| {
        let k = tuple.len();
        for t in 0..k {
            txs[t].send(Cmd::Begin).unwrap();
            rxs[t].recv().unwrap();
        }
        let mut pos = vec![0usize; k];
        for &t in sched {
            let op = progs[tuple[t]].1[pos[t]];
            txs[t].send(Cmd::Step(op)).unwrap();
            let r = rxs[t].recv().unwrap();
            res.steps += 1;
            outcomes.insert(r.key);
            let mut vs = r.violations;
            if vs.is_empty() && r.key != solo[tuple[t]][pos[t]] {
                vs.push(Violation { prop: "C19", pred: "P-indep", msg: format!("thread {} running '{}' is in a different state after step {} ({:?}) than in its solo run: another thread's operations were observed", t, progs[tuple[t]].0, pos[t], op) });
            }
            if !vs.is_empty() {
                for v in vs.iter_mut() {
                    if v.prop != "MACHINERY" && v.prop != "C19" {
                        v.msg = format!("[{} {}] {}", v.prop, v.pred, v.msg);
                        v.prop = "C19";
                    }
                }
                let desc = format!("programs {:?} schedule {:?}", tuple.iter().map(|i| progs[*i].0).collect::<Vec<_>>(), sched);
                res.found.push((desc, vs));
                break;
            }
            pos[t] += 1;
        }
        for t in 0..k {
            txs[t].send(Cmd::End).unwrap();
            rxs[t].recv().unwrap();
        }
        res.schedules += 1;
        let _ = lens;
    };
    // all pairs, all interleavings of the first pair_len ops
    'outer: for a in 0..progs.len() {
        for b in a..progs.len() {
            let lens = [progs[a].1.len().min(pair_len), progs[b].1.len().min(pair_len)];
            res.tuples += 1;
            for sched in all_interleavings(&lens) {
                run_schedule(&[a, b], &lens, &sched, &mut res);
                if !res.found.is_empty() {
                    break 'outer;
                }
            }
            if res.samples.len() < 4 && (a + b) % 5 == 0 {
                res.samples.push(format!("pair ('{}', '{}'): {} interleavings", progs[a].0, progs[b].0, all_interleavings(&lens).len()));
            }
        }
    }
    // triples (a selection, all interleavings of the first triple_len ops of each)
    if res.found.is_empty() {
        let stride = if thorough { 1 } else { 3 };
        'outer3: for a in (0..progs.len()).step_by(stride) {
            for b in (a..progs.len()).step_by(2) {
                for c in (b..progs.len()).step_by(3) {
                    let lens = [progs[a].1.len().min(triple_len), progs[b].1.len().min(triple_len), progs[c].1.len().min(triple_len)];
                    res.tuples += 1;
                    for sched in all_interleavings(&lens) {
                        run_schedule(&[a, b, c], &lens, &sched, &mut res);
                        if !res.found.is_empty() {
                            break 'outer3;
                        }
                    }
                }
            }
        }
    }
    // 4..max_threads threads: round-robin and its rotations (listed, NOT exhaustive)
    if res.found.is_empty() {
        for k in 4..=nthreads {
            let tuple: Vec<usize> = (0..k).map(|i| i % progs.len()).collect();
            let lens: Vec<usize> = tuple.iter().map(|i| progs[*i].1.len()).collect();
            for rot in 0..k {
                let mut sched = Vec::new();
                let maxl = *lens.iter().max().unwrap();
                for step in 0..maxl {
                    for j in 0..k {
                        let t = (j + rot) % k;
                        if step < lens[t] {
                            sched.push(t);
                        }
                    }
                }
                run_schedule(&tuple, &lens, &sched, &mut res);
                if !res.found.is_empty() {
                    break;
                }
            }
            res.tuples += 1;
        }
    }
    res.distinct_outcomes = outcomes.len();
    for tx in &txs {
        let _ = tx.send(Cmd::Quit);
    }
    for h in handles {
        let _ = h.join();
    }
    res
}

// ------------------------------------------------------------------------------------------------
// Teardown scenarios (one per process)
// ------------------------------------------------------------------------------------------------

pub mod teardown {
    use std::cell::RefCell;
    use std::sync::atomic::{AtomicUsize, Ordering::SeqCst};

    use rust_cc::*;

    #[cfg(feature = "cleaners")]
    use rust_cc::cleaners::Cleaner;
    #[cfg(feature = "weak")]
    use rust_cc::weak::Weak;

    pub static DROPS: AtomicUsize = AtomicUsize::new(0);
    pub static DOUBLE: AtomicUsize = AtomicUsize::new(0);
    pub static BAD_CANARY: AtomicUsize = AtomicUsize::new(0);
    pub static FINS: AtomicUsize = AtomicUsize::new(0);
    pub static ACTS: AtomicUsize = AtomicUsize::new(0);
    pub static CREATED: AtomicUsize = AtomicUsize::new(0);

    pub struct Node {
        canary: u64,
        dropped: std::cell::Cell<bool>,
        next: RefCell<Option<Cc<Node>>>,
        other: RefCell<Option<Cc<Node>>>,
        #[cfg(feature = "weak")]
        w: RefCell<Option<Weak<Node>>>,
        #[cfg(feature = "cleaners")]
        cleaner: Cleaner,
        collect_in_fin: bool,
    }
    unsafe impl Trace for Node {
        fn trace(&self, ctx: &mut Context<'_>) {
            if self.canary != 0xC0FFEE {
                BAD_CANARY.fetch_add(1, SeqCst);
                return;
            }
            self.next.trace(ctx);
            self.other.trace(ctx);
        }
    }
    impl Finalize for Node {
        fn finalize(&self) {
            if self.canary != 0xC0FFEE {
                BAD_CANARY.fetch_add(1, SeqCst);
                return;
            }
            FINS.fetch_add(1, SeqCst);
            if self.collect_in_fin {
                collect_cycles();
                let _ = Cc::new(5u32);
            }
            #[cfg(feature = "weak")]
            if let Some(w) = self.w.borrow().as_ref() {
                let _ = w.upgrade();
            }
        }
    }
    impl Drop for Node {
        fn drop(&mut self) {
            if self.canary != 0xC0FFEE {
                BAD_CANARY.fetch_add(1, SeqCst);
                return;
            }
            if self.dropped.replace(true) {
                DOUBLE.fetch_add(1, SeqCst);
            }
            DROPS.fetch_add(1, SeqCst);
        }
    }
    fn node(c: bool) -> Cc<Node> {
        CREATED.fetch_add(1, SeqCst);
        Cc::new(Node {
            canary: 0xC0FFEE,
            dropped: std::cell::Cell::new(false),
            next: RefCell::new(None),
            other: RefCell::new(None),
            #[cfg(feature = "weak")]
            w: RefCell::new(None),
            #[cfg(feature = "cleaners")]
            cleaner: Cleaner::new(),
            collect_in_fin: c,
        })
    }

    struct Hold {
        ccs: RefCell<Vec<Cc<Node>>>,
        #[cfg(feature = "weak")]
        weaks: RefCell<Vec<Weak<Node>>>,
        collect_on_drop: std::cell::Cell<bool>,
    }
    impl Drop for Hold {
        fn drop(&mut self) {
            if self.collect_on_drop.get() {
                collect_cycles();
                let _ = Cc::new(1u8);
                let _ = state::allocated_bytes();
                let _ = state::buffered_objects_count();
            }
        }
    }
    thread_local! {
        static HOLD: Hold = Hold { ccs: RefCell::new(vec![]), #[cfg(feature = "weak")] weaks: RefCell::new(vec![]), collect_on_drop: std::cell::Cell::new(false) };
    }

    pub const KINDS: u32 = 10;

    pub fn scenario(order: u32, kind: u32, tls_collects: bool) {
        if order == 0 {
            // user thread-local registered before the collector's thread-locals => destroyed AFTER them
            HOLD.with(|h| h.collect_on_drop.set(tls_collects));
        }
        let a = node(kind == 6);
        let b = node(false);
        if order == 1 {
            // collector thread-locals first (Cc::new above touched the state, this touches the buffer)
            drop(a.clone());
            HOLD.with(|h| h.collect_on_drop.set(tls_collects));
        }
        HOLD.with(|h| match kind {
            0 => h.ccs.borrow_mut().push(a.clone()), // uniquely owned at exit (after the locals are gone)
            1 => {
                h.ccs.borrow_mut().push(a.clone());
                drop(a.clone()); // shared + buffered
            },
            2 => {
                *a.next.borrow_mut() = Some(b.clone());
                *b.next.borrow_mut() = Some(a.clone());
                h.ccs.borrow_mut().push(a.clone()); // live cycle held by the thread-local
            },
            3 => {
                *a.next.borrow_mut() = Some(b.clone());
                *b.next.borrow_mut() = Some(a.clone()); // garbage cycle, buffered at exit
                #[cfg(feature = "weak")]
                h.weaks.borrow_mut().push(a.downgrade());
            },
            4 => {
                #[cfg(feature = "weak")]
                {
                    let w = a.downgrade();
                    *a.w.borrow_mut() = Some(w.clone());
                    h.weaks.borrow_mut().push(w);
                }
                h.ccs.borrow_mut().push(a.clone());
            },
            5 => {
                #[cfg(feature = "cleaners")]
                {
                    let c = a.cleaner.register(|| {
                        ACTS.fetch_add(1, SeqCst);
                    });
                    std::mem::forget(c);
                    let bb = b.clone();
                    let _c2 = a.cleaner.register(move || {
                        ACTS.fetch_add(1, SeqCst);
                        drop(bb);
                    });
                }
                h.ccs.borrow_mut().push(a.clone());
            },
            6 => {
                h.ccs.borrow_mut().push(a.clone());
                *b.next.borrow_mut() = Some(b.clone()); // garbage self-cycle; a's finalizer collects and allocates
            },
            7 => {
                // two handles to one allocation held by the thread-local (count > 1 when they are dropped)
                h.ccs.borrow_mut().push(a.clone());
                h.ccs.borrow_mut().push(a.clone());
            },
            8 => {
                *a.next.borrow_mut() = Some(b.clone());
                *b.next.borrow_mut() = Some(a.clone());
                *a.other.borrow_mut() = Some(a.clone());
                h.ccs.borrow_mut().push(a.clone());
                h.ccs.borrow_mut().push(b.clone());
                drop(b.clone()); // live cycle, one member buffered, both held twice
            },
            _ => {
                // nothing held: everything is released before exit, garbage cycle left buffered
                *a.next.borrow_mut() = Some(a.clone());
            },
        });
    }

    pub fn report() -> String {
        format!(
            "created={} drops={} double={} bad_canary={} fins={} acts={}",
            CREATED.load(SeqCst),
            DROPS.load(SeqCst),
            DOUBLE.load(SeqCst),
            BAD_CANARY.load(SeqCst),
            FINS.load(SeqCst),
            ACTS.load(SeqCst)
        )
    }
}
