//! Mini explorer: bounded-exhaustive enumeration of all operation histories (up to a depth) over a reduced
//! alphabet, generic over the payload type. Used for the (size, align) layout grid (C03 / C13 / C20) and for
//! the container-position instantiations (C17). The explorer itself is not generic: payload types implement a
//! thin object-safe `TypedWorld`.
//!
//! Oracle: a reachability model (handles + one optional link per object), per-object drop counters fed by the
//! payload's Drop, canaries, the instrumented allocator (layout equality, double free, quarantine) and the
//! public counters.

use std::cell::RefCell;
use std::panic::{catch_unwind, AssertUnwindSafe};

use rust_cc::verif_hooks as hk;
use rust_cc::{collect_cycles, state, Cc, Trace};

#[cfg(feature = "weak")]
use rust_cc::weak::Weak;

use crate::alloc;
use crate::world::Violation;

pub const MV: usize = 3;
pub const MW: usize = 2;

/// What a payload type must provide
pub trait MiniPayload: Trace + Sized + 'static {
    const NAME: &'static str;
    /// The value carries an id (false for zero-sized payloads)
    const HAS_ID: bool;
    fn make(id: u8) -> Self;
    /// The traced link of this payload, if it has one
    fn slot(&self) -> Option<&RefCell<Option<Cc<Self>>>>;
    /// All bytes / canaries of the value are as `make(id)` left them
    fn intact(&self, id: u8) -> bool;
}

thread_local! {
    /// (element address, kind: 0 = drop, 1 = finalize) events of the current execution
    static EVENTS: RefCell<Vec<(usize, u8)>> = const { RefCell::new(Vec::new()) };
}

pub fn on_drop(addr: usize) {
    let _p = alloc::pause();
    let _ = EVENTS.try_with(|e| e.borrow_mut().push((addr, 0)));
}

pub fn on_finalize(addr: usize) {
    let _p = alloc::pause();
    let _ = EVENTS.try_with(|e| e.borrow_mut().push((addr, 1)));
}

#[derive(Clone, Copy, Debug, Default)]
pub struct Obs {
    pub box_addr: usize,
    pub elem_addr: usize,
    pub elem_addr_asref: usize,
    pub strong: u32,
    pub weak: u32,
    pub intact: bool,
}

#[derive(Clone, Copy, Debug, PartialEq, Eq)]
pub enum Unwrapped {
    Ok { intact: bool, elem_addr_differs: bool },
    Err { same_ptr: bool },
}

/// Object-safe typed layer: every method is one or two public API calls
pub trait TypedWorld {
    fn name(&self) -> &'static str;
    fn size_align(&self) -> (usize, usize);
    fn has_slot(&self) -> bool;
    fn new_obj(&mut self, var: usize, id: u8);
    fn dup(&mut self, a: usize, b: usize);
    fn drop_var(&mut self, a: usize);
    fn link(&mut self, a: usize, b: usize);
    fn unlink(&mut self, a: usize);
    fn observe(&self, a: usize) -> Obs;
    fn intact(&self, a: usize, id: u8) -> bool;
    fn ptr_eq(&self, a: usize, b: usize) -> bool;
    /// The library call only: an Ok value is parked inside the world (at `unwrapped_addr`) until `drop_unwrapped`
    fn try_unwrap(&mut self, a: usize, id: u8) -> Unwrapped;
    fn unwrapped_addr(&self) -> usize;
    fn drop_unwrapped(&mut self);
    fn downgrade(&mut self, a: usize, w: usize);
    fn upgrade(&mut self, w: usize, b: usize) -> bool;
    fn drop_weak(&mut self, w: usize);
    fn weak_counts(&self, w: usize) -> (u32, u32);
    /// Returns Ok(()) if new_cyclic returned a Cc (stored in var), Err(()) if the closure panicked
    fn new_cyclic(&mut self, var: usize, id: u8, panic: bool) -> Result<(), ()>;
    fn forget_all(&mut self);
}

pub struct Typed<P: MiniPayload> {
    unwrapped: Option<P>,
    vars: [Option<Cc<P>>; MV],
    #[cfg(feature = "weak")]
    wvars: [Option<Weak<P>>; MW],
}

impl<P: MiniPayload> Typed<P> {
    pub fn new() -> Self {
        Typed {
            unwrapped: None,
            vars: Default::default(),
            #[cfg(feature = "weak")]
            wvars: Default::default(),
        }
    }
}

impl<P: MiniPayload> TypedWorld for Typed<P> {
    fn name(&self) -> &'static str {
        P::NAME
    }
    fn size_align(&self) -> (usize, usize) {
        (std::mem::size_of::<P>(), std::mem::align_of::<P>())
    }
    fn has_slot(&self) -> bool {
        // decided on a throw-away value would allocate; payload types declare it through slot() on make(0)
        let v = std::mem::ManuallyDrop::new(P::make(0));
        v.slot().is_some()
    }
    fn new_obj(&mut self, var: usize, id: u8) {
        self.vars[var] = Some(Cc::new(P::make(id)));
    }
    fn dup(&mut self, a: usize, b: usize) {
        self.vars[b] = Some(self.vars[a].as_ref().unwrap().clone());
    }
    fn drop_var(&mut self, a: usize) {
        let h = self.vars[a].take();
        drop(h);
    }
    fn link(&mut self, a: usize, b: usize) {
        let cl = self.vars[b].as_ref().unwrap().clone();
        let old = self.vars[a].as_ref().unwrap().slot().unwrap().borrow_mut().replace(cl);
        assert!(old.is_none());
    }
    fn unlink(&mut self, a: usize) {
        let old = self.vars[a].as_ref().unwrap().slot().unwrap().borrow_mut().take();
        drop(old);
    }
    fn observe(&self, a: usize) -> Obs {
        let cc = self.vars[a].as_ref().unwrap();
        let r: &P = cc;
        #[cfg(feature = "weak")]
        let weak = cc.weak_count();
        #[cfg(not(feature = "weak"))]
        let weak = 0;
        Obs {
            box_addr: hk::box_addr(cc),
            elem_addr: r as *const P as usize,
            elem_addr_asref: <Cc<P> as AsRef<P>>::as_ref(cc) as *const P as usize,
            strong: cc.strong_count(),
            weak,
            intact: true,
        }
    }
    fn intact(&self, a: usize, id: u8) -> bool {
        self.vars[a].as_ref().unwrap().intact(id)
    }
    fn ptr_eq(&self, a: usize, b: usize) -> bool {
        Cc::ptr_eq(self.vars[a].as_ref().unwrap(), self.vars[b].as_ref().unwrap())
    }
    fn try_unwrap(&mut self, a: usize, id: u8) -> Unwrapped {
        let cc = self.vars[a].take().unwrap();
        let addr = hk::box_addr(&cc);
        let elem = &*cc as *const P as usize;
        match cc.try_unwrap() {
            Ok(v) => {
                let intact = v.intact(id);
                self.unwrapped = Some(v);
                Unwrapped::Ok { intact, elem_addr_differs: self.unwrapped_addr() != elem }
            },
            Err(back) => {
                let same = hk::box_addr(&back) == addr;
                self.vars[a] = Some(back);
                Unwrapped::Err { same_ptr: same }
            },
        }
    }
    fn unwrapped_addr(&self) -> usize {
        match self.unwrapped.as_ref() {
            Some(v) => v as *const P as usize,
            None => 0,
        }
    }
    fn drop_unwrapped(&mut self) {
        // dropped in place: the destructor must see the address announced by unwrapped_addr()
        if let Some(v) = self.unwrapped.as_mut() {
            unsafe { std::ptr::drop_in_place(v as *mut P) };
        }
        unsafe { std::ptr::write(&mut self.unwrapped, None) };
    }
    #[cfg(feature = "weak")]
    fn downgrade(&mut self, a: usize, w: usize) {
        self.wvars[w] = Some(self.vars[a].as_ref().unwrap().downgrade());
    }
    #[cfg(feature = "weak")]
    fn upgrade(&mut self, w: usize, b: usize) -> bool {
        match self.wvars[w].as_ref().unwrap().upgrade() {
            Some(cc) => {
                self.vars[b] = Some(cc);
                true
            },
            None => false,
        }
    }
    #[cfg(feature = "weak")]
    fn drop_weak(&mut self, w: usize) {
        self.wvars[w] = None;
    }
    #[cfg(feature = "weak")]
    fn weak_counts(&self, w: usize) -> (u32, u32) {
        let wk = self.wvars[w].as_ref().unwrap();
        (wk.strong_count(), wk.weak_count())
    }
    #[cfg(feature = "weak")]
    fn new_cyclic(&mut self, var: usize, id: u8, panic: bool) -> Result<(), ()> {
        let r = catch_unwind(AssertUnwindSafe(|| {
            Cc::new_cyclic(|w: &Weak<P>| {
                assert!(w.upgrade().is_none());
                if panic {
                    std::panic::panic_any("mini-closure-panic");
                }
                P::make(id)
            })
        }));
        match r {
            Ok(cc) => {
                self.vars[var] = Some(cc);
                Ok(())
            },
            Err(_) => Err(()),
        }
    }
    #[cfg(not(feature = "weak"))]
    fn downgrade(&mut self, _a: usize, _w: usize) {}
    #[cfg(not(feature = "weak"))]
    fn upgrade(&mut self, _w: usize, _b: usize) -> bool {
        false
    }
    #[cfg(not(feature = "weak"))]
    fn drop_weak(&mut self, _w: usize) {}
    #[cfg(not(feature = "weak"))]
    fn weak_counts(&self, _w: usize) -> (u32, u32) {
        (0, 0)
    }
    #[cfg(not(feature = "weak"))]
    fn new_cyclic(&mut self, _var: usize, _id: u8, _panic: bool) -> Result<(), ()> {
        Err(())
    }
    fn forget_all(&mut self) {
        std::mem::forget(self.unwrapped.take());
        for v in self.vars.iter_mut() {
            std::mem::forget(v.take());
        }
        #[cfg(feature = "weak")]
        for w in self.wvars.iter_mut() {
            std::mem::forget(w.take());
        }
    }
}

// ------------------------------------------------------------------------------------------------

#[derive(Clone, Copy, Debug, PartialEq, Eq, PartialOrd, Ord, Hash)]
pub enum MOp {
    New(u8),
    Dup(u8, u8),
    Drop(u8),
    Link(u8, u8),
    Unlink(u8),
    Collect,
    TryUnwrap(u8),
    Downgrade(u8, u8),
    Upgrade(u8, u8),
    DropWeak(u8),
    NewCyclic(u8),
    NewCyclicPanic(u8),
}

pub fn enc(h: &[MOp]) -> String {
    h.iter()
        .map(|o| match o {
            MOp::New(a) => format!("n{}", a),
            MOp::Dup(a, b) => format!("d{}{}", a, b),
            MOp::Drop(a) => format!("x{}", a),
            MOp::Link(a, b) => format!("l{}{}", a, b),
            MOp::Unlink(a) => format!("u{}", a),
            MOp::Collect => "c".to_string(),
            MOp::TryUnwrap(a) => format!("t{}", a),
            MOp::Downgrade(a, b) => format!("w{}{}", a, b),
            MOp::Upgrade(a, b) => format!("g{}{}", a, b),
            MOp::DropWeak(a) => format!("k{}", a),
            MOp::NewCyclic(a) => format!("y{}", a),
            MOp::NewCyclicPanic(a) => format!("p{}", a),
        })
        .collect::<Vec<_>>()
        .join(",")
}

pub fn dec(s: &str) -> Vec<MOp> {
    s.split(',')
        .filter(|x| !x.is_empty())
        .map(|x| {
            let b = x.as_bytes();
            let d = |i: usize| b[i] - b'0';
            match b[0] {
                b'n' => MOp::New(d(1)),
                b'd' => MOp::Dup(d(1), d(2)),
                b'x' => MOp::Drop(d(1)),
                b'l' => MOp::Link(d(1), d(2)),
                b'u' => MOp::Unlink(d(1)),
                b'c' => MOp::Collect,
                b't' => MOp::TryUnwrap(d(1)),
                b'w' => MOp::Downgrade(d(1), d(2)),
                b'g' => MOp::Upgrade(d(1), d(2)),
                b'k' => MOp::DropWeak(d(1)),
                b'y' => MOp::NewCyclic(d(1)),
                b'p' => MOp::NewCyclicPanic(d(1)),
                _ => panic!("bad mini op"),
            }
        })
        .collect()
}

#[derive(Clone, Debug)]
struct MObj {
    box_addr: usize,
    elem_addr: usize,
    drops: u32,
    fins: u32,
    link: Option<u8>,
    moved_out: bool,
    cyclic_failed: bool,
}

#[derive(Clone, Debug, Default)]
struct MModel {
    objs: Vec<MObj>,
    vars: [Option<u8>; MV],
    wvars: [Option<u8>; MW],
}

impl MModel {
    fn live(&self) -> u16 {
        let mut seen = 0u16;
        let mut st: Vec<u8> = self.vars.iter().flatten().copied().collect();
        while let Some(o) = st.pop() {
            if seen & (1 << o) != 0 {
                continue;
            }
            seen |= 1 << o;
            if self.objs[o as usize].drops == 0 {
                if let Some(t) = self.objs[o as usize].link {
                    st.push(t);
                }
            }
        }
        seen
    }
    fn count(&self, o: u8) -> u32 {
        let mut n = self.vars.iter().filter(|v| **v == Some(o)).count() as u32;
        for p in &self.objs {
            if p.drops == 0 && !p.moved_out && !p.cyclic_failed && p.link == Some(o) {
                n += 1;
            }
        }
        n
    }
    fn weak_count(&self, o: u8) -> u32 {
        self.wvars.iter().filter(|v| **v == Some(o)).count() as u32
    }
}

pub struct MiniCfg {
    pub nobj: usize,
    pub depth: usize,
    pub weak_ops: bool,
    pub cyclic_ops: bool,
    /// Attribute every violation to this property (C17 runs) instead of the predicate's own
    pub prop_override: Option<&'static str>,
}

pub struct MiniStats {
    pub histories: u64,
    pub executions: u64,
    pub collected_cycles: u64,
    pub rc_drops: u64,
    pub unwrap_ok: u64,
    pub upgrades_some: u64,
    pub distinct_final_shapes: std::collections::HashSet<u64>,
}

pub struct MiniFound {
    pub history: Vec<MOp>,
    pub violations: Vec<Violation>,
}

fn alloc_obs(ev: hk::AllocEvent, addr: usize, size: usize, align: usize) {
    match ev {
        hk::AllocEvent::BoxAlloc => alloc::tag(addr, size, align, alloc::Kind::CcBox),
        hk::AllocEvent::OtherAlloc => alloc::tag(addr, size, align, alloc::Kind::Side),
        _ => {},
    }
}

/// Executes one history from a pristine collector; returns violations and the ops enabled afterwards
pub fn run(w: &mut dyn TypedWorld, cfg: &MiniCfg, h: &[MOp], stats: Option<&mut MiniStats>) -> (Vec<Violation>, Vec<MOp>) {
    hk::reset_thread_state();
    hk::set_alloc_observer(Some(alloc_obs));
    #[cfg(feature = "auto")]
    let _ = rust_cc::config::config(|c| c.set_auto_collect(false));
    EVENTS.with(|e| e.borrow_mut().clear());
    alloc::begin();
    let mut vs: Vec<Violation> = Vec::new();
    let mut m = MModel::default();
    let (psize, palign) = w.size_align();
    let mut st_collected = 0u64;
    let mut st_rc = 0u64;
    let mut st_unwrap = 0u64;
    let mut st_up = 0u64;
    let has_slot = w.has_slot();
    let r = catch_unwind(AssertUnwindSafe(|| {
        for op in h {
            let live_before = m.live();
            let mut expect_gone: Option<u8> = None;
            match *op {
                MOp::New(a) => {
                    let id = m.objs.len() as u8;
                    w.new_obj(a as usize, id);
                    let o = w.observe(a as usize);
                    m.objs.push(MObj { box_addr: o.box_addr, elem_addr: o.elem_addr, drops: 0, fins: 0, link: None, moved_out: false, cyclic_failed: false });
                    m.vars[a as usize] = Some(id);
                },
                MOp::Dup(a, b) => {
                    w.dup(a as usize, b as usize);
                    m.vars[b as usize] = m.vars[a as usize];
                },
                MOp::Drop(a) => {
                    m.vars[a as usize] = None;
                    w.drop_var(a as usize);
                },
                MOp::Link(a, b) => {
                    w.link(a as usize, b as usize);
                    let (oa, ob) = (m.vars[a as usize].unwrap(), m.vars[b as usize].unwrap());
                    m.objs[oa as usize].link = Some(ob);
                },
                MOp::Unlink(a) => {
                    let oa = m.vars[a as usize].unwrap();
                    m.objs[oa as usize].link = None;
                    w.unlink(a as usize);
                },
                MOp::Collect => {
                    collect_cycles();
                },
                MOp::TryUnwrap(a) => {
                    let id = m.vars[a as usize].unwrap();
                    let sc = w.observe(a as usize).strong;
                    let ev_before = EVENTS.with(|e| e.borrow().len());
                    m.vars[a as usize] = None;
                    match w.try_unwrap(a as usize, id) {
                        Unwrapped::Ok { intact, .. } => {
                            st_unwrap += 1;
                            if sc != 1 {
                                vs.push(Violation { prop: "C13", pred: "P-unwrap", msg: format!("try_unwrap returned Ok although strong_count() was {}", sc) });
                            }
                            if !intact {
                                vs.push(Violation { prop: "C13", pred: "P-unwrap", msg: "try_unwrap returned a value whose bytes changed".to_string() });
                            }
                            // no user callback may run during the call itself
                            let during = EVENTS.with(|e| e.borrow().len()) - ev_before;
                            if during != 0 {
                                vs.push(Violation { prop: "C13", pred: "P-unwrap", msg: format!("try_unwrap ran {} finalizer/destructor call(s)", during) });
                            }
                            // the value now belongs to the harness, parked at a known address; dropping it releases its link
                            m.objs[id as usize].moved_out = true;
                            m.objs[id as usize].elem_addr = w.unwrapped_addr();
                            w.drop_unwrapped();
                            expect_gone = Some(id);
                        },
                        Unwrapped::Err { same_ptr } => {
                            m.vars[a as usize] = Some(id);
                            if sc == 1 {
                                vs.push(Violation { prop: "C13", pred: "P-unwrap", msg: "try_unwrap returned Err although strong_count() was 1".to_string() });
                            }
                            if !same_ptr {
                                vs.push(Violation { prop: "C13", pred: "P-unwrap", msg: "try_unwrap returned Err with a different pointer".to_string() });
                            }
                        },
                    }
                },
                MOp::Downgrade(a, wv) => {
                    w.downgrade(a as usize, wv as usize);
                    m.wvars[wv as usize] = m.vars[a as usize];
                },
                MOp::Upgrade(wv, b) => {
                    let t = m.wvars[wv as usize].unwrap();
                    let o = &m.objs[t as usize];
                    let alive = o.drops == 0 && !o.moved_out && !o.cyclic_failed && m.count(t) > 0;
                    let some = w.upgrade(wv as usize, b as usize);
                    if some {
                        st_up += 1;
                    }
                    if some != alive {
                        vs.push(Violation { prop: "C08", pred: "P-upg", msg: format!("Weak::upgrade returned {} for object #{} (alive: {})", if some { "Some" } else { "None" }, t, alive) });
                    }
                    if some {
                        m.vars[b as usize] = Some(t);
                    }
                },
                MOp::DropWeak(wv) => {
                    m.wvars[wv as usize] = None;
                    w.drop_weak(wv as usize);
                },
                MOp::NewCyclic(a) | MOp::NewCyclicPanic(a) => {
                    let id = m.objs.len() as u8;
                    let panic = matches!(op, MOp::NewCyclicPanic(_));
                    let boxes_before = alloc::live_box_count();
                    let sides_before = alloc::live_side_count();
                    let r = w.new_cyclic(a as usize, id, panic);
                    match r {
                        Ok(()) => {
                            let o = w.observe(a as usize);
                            m.objs.push(MObj { box_addr: o.box_addr, elem_addr: o.elem_addr, drops: 0, fins: 0, link: None, moved_out: false, cyclic_failed: false });
                            m.vars[a as usize] = Some(id);
                            if panic {
                                vs.push(Violation { prop: "C14", pred: "P-cyclic", msg: "new_cyclic returned although its closure panicked".to_string() });
                            }
                        },
                        Err(()) => {
                            m.objs.push(MObj { box_addr: 0, elem_addr: 0, drops: 0, fins: 0, link: None, moved_out: false, cyclic_failed: true });
                            if !panic {
                                vs.push(Violation { prop: "C14", pred: "P-cyclic", msg: "new_cyclic panicked although its closure did not".to_string() });
                            }
                            if alloc::live_box_count() != boxes_before || alloc::live_side_count() != sides_before {
                                vs.push(Violation { prop: "C14", pred: "P-cyclic", msg: format!("new_cyclic with a panicking closure leaked memory (boxes {} -> {}, side records {} -> {})", boxes_before, alloc::live_box_count(), sides_before, alloc::live_side_count()) });
                            }
                        },
                    }
                },
            }
            // ---- allocator verdicts
            alloc::drain(|ev| match ev {
                alloc::Event::DoubleFree { ptr, kind } => vs.push(Violation { prop: "C03", pred: "P-once", msg: format!("double free of {:?} block {:#x}", kind, ptr) }),
                alloc::Event::LayoutMismatch { ptr, kind, alloc_size, alloc_align, free_size, free_align } => vs.push(Violation { prop: "C03", pred: "P-once", msg: format!("{:?} block {:#x} allocated with size {} align {} released with size {} align {} (payload size {} align {})", kind, ptr, alloc_size, alloc_align, free_size, free_align, psize, palign) }),
                alloc::Event::ObserverMismatch { ptr, size, align } => vs.push(Violation { prop: "C03", pred: "P-once", msg: format!("crate reported an allocation {:#x} (size {}, align {}) unknown to the allocator", ptr, size, align) }),
                _ => {},
            });
            // ---- drop / finalize events
            let evs: Vec<(usize, u8)> = EVENTS.with(|e| std::mem::take(&mut *e.borrow_mut()));
            let live_after = m.live();
            for (addr, kind) in evs {
                if let Some(i) = m.objs.iter().position(|o| o.moved_out && o.drops == 0 && o.elem_addr == addr) {
                    // the moved-out value dropped by its new owner (the harness)
                    if kind == 1 {
                        vs.push(Violation { prop: "C13", pred: "P-unwrap", msg: format!("moved-out value of object #{} finalized", i) });
                    } else {
                        m.objs[i].drops = 1;
                    }
                    continue;
                }
                let Some(i) = m.objs.iter().position(|o| o.elem_addr == addr && !o.moved_out && !o.cyclic_failed) else {
                    vs.push(Violation { prop: "C14", pred: "P-cyclic", msg: format!("{} of a value at {:#x} which is not a constructed object", if kind == 0 { "drop" } else { "finalize" }, addr) });
                    continue;
                };
                if kind == 1 {
                    m.objs[i].fins += 1;
                    if m.objs[i].fins > 1 {
                        vs.push(Violation { prop: "C05", pred: "P-fin", msg: format!("object #{} finalized {} times", i, m.objs[i].fins) });
                    }
                    if m.objs[i].drops > 0 {
                        vs.push(Violation { prop: "C05", pred: "P-fin", msg: format!("object #{} finalized after its drop", i) });
                    }
                    if live_before & live_after & (1 << i) != 0 {
                        vs.push(Violation { prop: "C05", pred: "P-fin", msg: format!("reachable object #{} finalized", i) });
                    }
                    continue;
                }
                m.objs[i].drops += 1;
                if m.objs[i].drops > 1 {
                    vs.push(Violation { prop: "C03", pred: "P-once", msg: format!("object #{} dropped {} times", i, m.objs[i].drops) });
                }
                if live_after & (1 << i) != 0 {
                    vs.push(Violation { prop: "C01", pred: "P-live", msg: format!("object #{} dropped while reachable", i) });
                }
                if cfg!(feature = "fin") && m.objs[i].fins == 0 {
                    vs.push(Violation { prop: "C05", pred: "P-fin", msg: format!("object #{} dropped without having been finalized", i) });
                }
                if matches!(op, MOp::Collect) {
                    st_collected += 1;
                } else {
                    st_rc += 1;
                }
            }
            if !vs.is_empty() {
                break;
            }
            // ---- state after the operation
            let live = m.live();
            for i in 0..m.objs.len() {
                let o = &m.objs[i];
                if o.cyclic_failed {
                    continue;
                }
                let blk = alloc::block(o.box_addr);
                let freed = blk.map_or(true, |b| b.freed);
                let gone = o.drops > 0 || o.moved_out;
                if gone && !freed {
                    vs.push(Violation { prop: "C03", pred: "P-once", msg: format!("object #{} was dropped/moved out but its allocation was not released before the call returned", i) });
                }
                if !gone && freed {
                    vs.push(Violation { prop: "C01", pred: "P-live", msg: format!("allocation of object #{} released although its value was never dropped", i) });
                }
                if !gone && live & (1 << i) == 0 && m.count(i as u8) == 0 {
                    vs.push(Violation { prop: "C04", pred: "P-count", msg: format!("object #{} has no owner left but was not dropped", i) });
                }
                if let (Some(b), false) = (blk, o.moved_out) {
                    if b.align < palign || o.elem_addr % palign.max(1) != 0 {
                        vs.push(Violation { prop: "C20", pred: "P-ptr", msg: format!("payload of object #{} at {:#x} is not aligned to {} (box align {})", i, o.elem_addr, palign, b.align) });
                    }
                    if o.elem_addr < o.box_addr || o.elem_addr + psize > o.box_addr + b.size {
                        vs.push(Violation { prop: "C20", pred: "P-ptr", msg: format!("payload of object #{} ({:#x}+{}) is outside its allocation ({:#x}+{})", i, o.elem_addr, psize, o.box_addr, b.size) });
                    }
                }
            }
            let _ = expect_gone;
            for a in 0..MV {
                if let Some(id) = m.vars[a] {
                    let o = w.observe(a);
                    let mo = &m.objs[id as usize];
                    if o.box_addr != mo.box_addr || o.elem_addr != mo.elem_addr || o.elem_addr_asref != mo.elem_addr {
                        vs.push(Violation { prop: "C20", pred: "P-ptr", msg: format!("object #{} moved: box {:#x}->{:#x}, value {:#x}->{:#x} (AsRef {:#x})", id, mo.box_addr, o.box_addr, mo.elem_addr, o.elem_addr, o.elem_addr_asref) });
                    }
                    if !w.intact(a, id) {
                        vs.push(Violation { prop: "C01", pred: "P-live", msg: format!("dereferencing object #{} yields a corrupted value", id) });
                    }
                    if o.strong != m.count(id) {
                        vs.push(Violation { prop: "C04", pred: "P-count", msg: format!("strong_count() of object #{} is {} but {} Cc pointers exist", id, o.strong, m.count(id)) });
                    }
                    if cfg!(feature = "weak") && o.weak != m.weak_count(id) {
                        vs.push(Violation { prop: "C09", pred: "P-wcnt", msg: format!("weak_count() of object #{} is {} but {} Weak pointers exist", id, o.weak, m.weak_count(id)) });
                    }
                    for b in (a + 1)..MV {
                        if let Some(id2) = m.vars[b] {
                            if w.ptr_eq(a, b) != (id == id2) {
                                vs.push(Violation { prop: "C20", pred: "P-ptr", msg: format!("ptr_eq(v{}, v{}) is {} but the handles point to objects #{} and #{}", a, b, w.ptr_eq(a, b), id, id2) });
                            }
                        }
                    }
                }
            }
            if cfg!(feature = "weak") {
                for wv in 0..MW {
                    if let Some(t) = m.wvars[wv] {
                        let (sc, wc) = w.weak_counts(wv);
                        let o = &m.objs[t as usize];
                        let alive = o.drops == 0 && !o.moved_out && !o.cyclic_failed;
                        let exp = if alive { m.count(t) } else { 0 };
                        if sc != exp || wc != m.weak_count(t) {
                            vs.push(Violation { prop: "C09", pred: "P-wcnt", msg: format!("Weak to object #{} reports (strong {}, weak {}), expected ({}, {})", t, sc, wc, exp, m.weak_count(t)) });
                        }
                    }
                }
            }
            if state::allocated_bytes().unwrap_or(usize::MAX) != alloc::live_box_bytes() {
                vs.push(Violation { prop: "C11", pred: "P-intro", msg: format!("allocated_bytes() = {:?} but live managed allocations total {}", state::allocated_bytes(), alloc::live_box_bytes()) });
            }
            if matches!(op, MOp::Collect) {
                // completeness: with finalization, the first collect finalizes and may re-buffer; a second call must finish
                let pending: Vec<usize> = (0..m.objs.len()).filter(|i| m.objs[*i].drops == 0 && !m.objs[*i].moved_out && !m.objs[*i].cyclic_failed && live & (1 << *i) == 0).collect();
                if !pending.is_empty() {
                    vs.push(Violation { prop: "C02", pred: "P-complete", msg: format!("collect_cycles() left unreachable objects {:?} unreclaimed", pending) });
                }
            }
            if !vs.is_empty() {
                break;
            }
        }
    }));
    if let Err(p) = r {
        let msg = p.downcast_ref::<&'static str>().map(|s| s.to_string()).or_else(|| p.downcast_ref::<String>().cloned()).unwrap_or_default();
        vs.push(Violation { prop: "ANY", pred: "P-nopanic", msg: format!("unexpected panic: {}", msg) });
    }
    // enabled ops
    let mut succ: Vec<MOp> = Vec::new();
    if vs.is_empty() {
        let ev = (0..MV).find(|j| m.vars[*j].is_none());
        let ew = (0..MW).find(|j| m.wvars[*j].is_none());
        let can_alloc = m.objs.len() < cfg.nobj;
        if let Some(e) = ev {
            if can_alloc {
                succ.push(MOp::New(e as u8));
                if cfg.cyclic_ops && cfg!(feature = "weak") {
                    succ.push(MOp::NewCyclic(e as u8));
                    succ.push(MOp::NewCyclicPanic(e as u8));
                }
            }
        }
        for a in 0..MV {
            let Some(id) = m.vars[a] else { continue };
            succ.push(MOp::Drop(a as u8));
            succ.push(MOp::TryUnwrap(a as u8));
            if let Some(e) = ev {
                succ.push(MOp::Dup(a as u8, e as u8));
            }
            if has_slot {
                if m.objs[id as usize].link.is_none() {
                    for b in 0..MV {
                        if m.vars[b].is_some() {
                            succ.push(MOp::Link(a as u8, b as u8));
                        }
                    }
                } else {
                    succ.push(MOp::Unlink(a as u8));
                }
            }
            if cfg.weak_ops && cfg!(feature = "weak") {
                if let Some(wv) = ew {
                    succ.push(MOp::Downgrade(a as u8, wv as u8));
                }
            }
        }
        if cfg.weak_ops && cfg!(feature = "weak") {
            for wv in 0..MW {
                if m.wvars[wv].is_some() {
                    succ.push(MOp::DropWeak(wv as u8));
                    if let Some(e) = ev {
                        succ.push(MOp::Upgrade(wv as u8, e as u8));
                    }
                }
            }
        }
        succ.push(MOp::Collect);
    }
    if let Some(p) = cfg.prop_override {
        for v in vs.iter_mut() {
            if v.prop != "MACHINERY" {
                v.msg = format!("[{} {}] {}", v.prop, v.pred, v.msg);
                v.prop = p;
            }
        }
    }
    let (vs_out, succ_out) = alloc::untracked(|| (vs.clone(), succ.clone()));
    if let Some(st) = stats {
        let _p = alloc::pause();
        st.executions += 1;
        st.collected_cycles += st_collected;
        st.rc_drops += st_rc;
        st.unwrap_ok += st_unwrap;
        st.upgrades_some += st_up;
        // shape of the final model (for the distinct-outcome count)
        let mut hsh = 0xcbf29ce484222325u64;
        for o in &m.objs {
            hsh = (hsh ^ (o.drops as u64 | (o.link.map_or(0xF, |x| x as u64) << 8) | ((o.moved_out as u64) << 16))).wrapping_mul(0x100000001b3);
        }
        for v in m.vars {
            hsh = (hsh ^ v.map_or(0xFF, |x| x as u64)).wrapping_mul(0x100000001b3);
        }
        st.distinct_final_shapes.insert(hsh);
    }
    w.forget_all();
    drop(vs);
    drop(succ);
    drop(m);
    hk::set_alloc_observer(None);
    hk::reset_thread_state();
    alloc::end();
    (vs_out, succ_out)
}

/// Depth-first enumeration of every history up to cfg.depth
pub fn enumerate(w: &mut dyn TypedWorld, cfg: &MiniCfg, stats: &mut MiniStats) -> Option<MiniFound> {
    let mut stack: Vec<(Vec<MOp>, Vec<MOp>)> = Vec::new(); // (history, untried successors)
    let (vs, succ) = run(w, cfg, &[], Some(stats));
    if !vs.is_empty() {
        return Some(MiniFound { history: vec![], violations: vs });
    }
    stack.push((vec![], succ));
    while let Some((h, mut succ)) = stack.pop() {
        let Some(op) = succ.pop() else { continue };
        stack.push((h.clone(), succ));
        let mut h2 = h;
        h2.push(op);
        let (vs, s2) = run(w, cfg, &h2, Some(stats));
        stats.histories += 1;
        if !vs.is_empty() {
            return Some(MiniFound { history: h2, violations: vs });
        }
        if h2.len() < cfg.depth {
            stack.push((h2, s2));
        }
    }
    None
}
