//! ccmc: explicit-state model checking of rust-cc by history replay against the real crate.

mod alloc;
mod bfs;
#[allow(dead_code)]
mod chain;
mod containers;
mod containers_gen;
mod crash;
mod explore;
mod fwd;
mod grid;
mod json;
mod lens;
mod mini;
#[cfg(feature = "auto")]
mod mixed;
mod ops;
#[cfg(feature = "auto")]
mod policy;
mod seeds;
mod threads;
mod world;

use std::collections::HashMap;

use json::J;
use ops::*;

#[global_allocator]
static GLOBAL: alloc::VerifAlloc = alloc::VerifAlloc;

fn parse_list(s: &str) -> Vec<u8> {
    s.split(',').filter(|x| !x.is_empty()).map(|x| x.parse().expect("bad list")).collect()
}

fn args_map() -> (String, HashMap<String, String>) {
    let mut it = std::env::args().skip(1);
    let cmd = it.next().unwrap_or_else(|| "help".to_string());
    let mut m = HashMap::new();
    let rest: Vec<String> = it.collect();
    let mut i = 0;
    while i < rest.len() {
        let k = rest[i].trim_start_matches("--").to_string();
        if i + 1 < rest.len() && !rest[i + 1].starts_with("--") {
            m.insert(k, rest[i + 1].clone());
            i += 2;
        } else {
            m.insert(k, "1".to_string());
            i += 1;
        }
    }
    (cmd, m)
}

fn lens_args(m: &HashMap<String, String>) -> lens::LensArgs {
    let get = |k: &str, d: usize| -> usize { m.get(k).map_or(d, |v| v.parse().expect("bad number")) };
    lens::LensArgs {
        name: m.get("lens").cloned().unwrap_or_else(|| "core".to_string()),
        n: get("n", 2),
        v: get("v", 3).min(MAXV),
        w: get("w", 2).min(MAXW),
        c: get("c", 2).min(MAXC),
        cells: get("cells", 2).min(T),
        ucell: get("ucell", 1) != 0,
        faults: get("faults", 0) as u32,
        fault_kinds: get("fault-kinds", 0x1f) as u8,
        fin_menu: m.get("fin-menu").map(|s| parse_list(s)),
        drop_menu: m.get("drop-menu").map(|s| parse_list(s)),
        closure_menu: m.get("closure-menu").map(|s| parse_list(s)),
        action_menu: m.get("action-menu").map(|s| parse_list(s)),
        max_actions: get("max-actions", 2),
        sat_k: get("sat-k", 1) as u8,
        no_epilogue: m.contains_key("no-epilogue"),
    }
}

fn build_cfg_name() -> String {
    let mut f: Vec<&str> = Vec::new();
    if cfg!(feature = "fin") {
        f.push("finalization");
    }
    if cfg!(feature = "auto") {
        f.push("auto-collect");
    }
    if cfg!(feature = "weak") {
        f.push("weak-ptrs");
    }
    if cfg!(feature = "cleaners") {
        f.push("cleaners");
    }
    if cfg!(feature = "pedantic") {
        f.push("pedantic-debug-assertions");
    }
    format!("{}[{}]", if cfg!(debug_assertions) { "debug" } else { "release" }, f.join(","))
}

fn viol_json(v: &world::Violation) -> J {
    J::obj(vec![("property", J::s(v.prop)), ("predicate", J::s(v.pred)), ("message", J::s(&v.msg))])
}

#[cfg(feature = "auto")]
fn policy_enc(o: &policy::POp) -> String {
    use policy::POp::*;
    match o {
        Alloc(k) => format!("a:{}", k),
        AllocCyclic(k) => format!("y:{}", k),
        GarbageHolding(k) => format!("h:{}", k),
        Free(k) => format!("f:{}", k),
        Garbage(k) => format!("g:{}", k),
        Buffer(k) => format!("b:{}", k),
        Collect => "c:0".to_string(),
        SetPercent(k) => format!("p:{}", k),
        SetBuffered(k) => format!("t:{}", k),
        SetAuto(k) => format!("u:{}", *k as u8),
    }
}

#[cfg(feature = "auto")]
fn policy_parse(s: &str) -> Vec<policy::POp> {
    use policy::POp::*;
    s.split(',')
        .filter(|x| !x.is_empty())
        .map(|x| {
            let (c, n) = x.split_once(':').expect("bad op");
            let n: u8 = n.parse().expect("bad op");
            match c {
                "a" => Alloc(n),
                "y" => AllocCyclic(n),
                "h" => GarbageHolding(n),
                "f" => Free(n),
                "g" => Garbage(n),
                "b" => Buffer(n),
                "c" => Collect,
                "p" => SetPercent(n),
                "t" => SetBuffered(n),
                "u" => SetAuto(n != 0),
                _ => panic!("bad op"),
            }
        })
        .collect()
}

fn bfs_json<O>(engine: &str, r: &bfs::BfsResult<O>, pretty: impl Fn(&[O]) -> String, enc: impl Fn(&[O]) -> String) -> J {
    J::obj(vec![
        ("lens", J::s(engine)),
        ("build", J::s(&build_cfg_name())),
        ("states", J::n(r.states as f64)),
        ("transitions", J::n(r.transitions as f64)),
        ("executions", J::n(r.transitions as f64)),
        ("max_depth_completed", J::n(r.max_depth_completed as f64)),
        ("fixpoint", J::Bool(r.fixpoint)),
        ("cut_reason", r.cut_reason.as_ref().map_or(J::Null, |s| J::s(s))),
        ("level_sizes", J::Arr(r.level_sizes.iter().map(|x| J::n(*x as f64)).collect())),
        ("samples", J::Arr(r.samples.iter().map(|h| J::s(&pretty(h))).collect())),
        ("vacuity", J::Obj(r.tags.iter().map(|(k, v)| (k.to_string(), J::n(*v as f64))).collect())),
        ("machinery_errors", J::Arr(vec![])),
        (
            "found",
            J::Arr(
                r.found
                    .iter()
                    .take(10)
                    .map(|f| J::obj(vec![("history", J::s(&enc(&f.history))), ("history_pretty", J::s(&pretty(&f.history))), ("epilogue", J::s("")), ("epilogue_pretty", J::s("")), ("violations", J::Arr(f.violations.iter().map(viol_json).collect()))]))
                    .collect(),
            ),
        ),
        ("lens_args", J::s(&std::env::args().skip(1).collect::<Vec<_>>().join(" "))),
        ("wall_s", J::n(r.wall_s)),
    ])
}

/// Runs the mini explorer over a list of payload types (in parallel over the types) and emits the usual JSON
fn mini_main(engine: &str, m: &HashMap<String, String>, cases: Vec<(String, fn() -> Box<dyn mini::TypedWorld>)>, cfg: mini::MiniCfg, threads: usize) -> ! {
    use std::sync::atomic::{AtomicUsize, Ordering};
    use std::sync::Mutex;
    let t0 = std::time::Instant::now();
    if let Some(h) = m.get("history") {
        alloc::init_thread();
        let ops = mini::dec(h);
        let (label, make) = &cases[0];
        let mut w = make();
        for i in 0..=ops.len() {
            let (vs, _) = mini::run(w.as_mut(), &cfg, &ops[..i], None);
            println!("[{}] after {:?}: violations {:?}", label, if i == 0 { None } else { Some(ops[i - 1]) }, vs.iter().map(|v| format!("{} {}: {}", v.prop, v.pred, v.msg)).collect::<Vec<_>>());
            if !vs.is_empty() {
                std::process::exit(1);
            }
        }
        std::process::exit(0);
    }
    let next = AtomicUsize::new(0);
    let results: Mutex<Vec<(String, u64, u64, u64, u64, u64, u64, usize, Option<mini::MiniFound>, (usize, usize))>> = Mutex::new(Vec::new());
    std::thread::scope(|sc| {
        for _ in 0..threads.max(1) {
            sc.spawn(|| {
                explore::warm_up_thread();
                loop {
                    let i = next.fetch_add(1, Ordering::Relaxed);
                    if i >= cases.len() {
                        break;
                    }
                    let (label, make) = &cases[i];
                    let mut w = make();
                    let sa = w.size_align();
                    let mut st = mini::MiniStats { histories: 0, executions: 0, collected_cycles: 0, rc_drops: 0, unwrap_ok: 0, upgrades_some: 0, distinct_final_shapes: Default::default() };
                    let found = mini::enumerate(w.as_mut(), &cfg, &mut st);
                    results.lock().unwrap().push((label.clone(), st.histories, st.executions, st.collected_cycles, st.rc_drops, st.unwrap_ok, st.upgrades_some, st.distinct_final_shapes.len(), found, sa));
                }
            });
        }
    });
    let mut res = results.into_inner().unwrap();
    res.sort_by(|a, b| a.0.cmp(&b.0));
    let states: usize = res.iter().map(|r| r.7).sum();
    let hist: u64 = res.iter().map(|r| r.1).sum();
    let execs: u64 = res.iter().map(|r| r.2).sum();
    let found: Vec<J> = res
        .iter()
        .filter_map(|r| r.8.as_ref().map(|f| (r, f)))
        .map(|(r, f)| J::obj(vec![("case", J::s(&r.0)), ("history", J::s(&mini::enc(&f.history))), ("history_pretty", J::s(&format!("[{}] {:?}", r.0, f.history))), ("epilogue", J::s("")), ("epilogue_pretty", J::s("")), ("violations", J::Arr(f.violations.iter().map(viol_json).collect()))]))
        .collect();
    let ok = found.is_empty();
    let out = J::obj(vec![
        ("lens", J::s(engine)),
        ("build", J::s(&build_cfg_name())),
        ("states", J::n(states as f64)),
        ("transitions", J::n(hist as f64)),
        ("executions", J::n(execs as f64)),
        ("max_depth_completed", J::n(cfg.depth as f64)),
        ("fixpoint", J::Bool(false)),
        ("cut_reason", J::s(&format!("all histories up to depth {} over {} payload types", cfg.depth, res.len()))),
        ("samples", J::Arr(res.iter().take(6).map(|r| J::s(&format!("{} (size {}, align {}): {} histories, {} distinct final shapes, {} collector drops, {} rc drops, {} unwraps, {} upgrades", r.0, r.9 .0, r.9 .1, r.1, r.7, r.3, r.4, r.5, r.6))).collect())),
        ("cases", J::Arr(res.iter().map(|r| J::obj(vec![("case", J::s(&r.0)), ("size", J::n(r.9 .0 as f64)), ("align", J::n(r.9 .1 as f64)), ("histories", J::n(r.1 as f64)), ("distinct_final_shapes", J::n(r.7 as f64))])).collect())),
        ("vacuity", J::obj(vec![("collector_drops", J::n(res.iter().map(|r| r.3).sum::<u64>() as f64)), ("rc_drops", J::n(res.iter().map(|r| r.4).sum::<u64>() as f64)), ("unwrap_ok", J::n(res.iter().map(|r| r.5).sum::<u64>() as f64)), ("upgrades_some", J::n(res.iter().map(|r| r.6).sum::<u64>() as f64))])),
        ("machinery_errors", J::Arr(vec![])),
        ("found", J::Arr(found)),
        ("lens_args", J::s(&std::env::args().skip(1).collect::<Vec<_>>().join(" "))),
        ("wall_s", J::n(t0.elapsed().as_secs_f64())),
    ]);
    emit(m, &out, ok);
}

fn emit(m: &HashMap<String, String>, out: &J, ok: bool) -> ! {
    let text = out.to_string();
    match m.get("out") {
        Some(p) => std::fs::write(p, text).expect("write out"),
        None => println!("{}", text),
    }
    std::process::exit(if ok { 0 } else { 1 });
}

fn main() {
    let (cmd, m) = args_map();
    // Panics raised by the crate under test or injected by the harness are part of the exploration and stay
    // silent; a panic raised by harness code itself is a machinery error and must be visible.
    std::panic::set_hook(Box::new(|info| {
        if let Some(loc) = info.location() {
            const HARNESS_FILES: &[&str] = &["main.rs", "world.rs", "world_ops.rs", "explore.rs", "alloc.rs", "crash.rs", "lens.rs", "ops.rs", "json.rs", "mini.rs", "policy.rs", "grid.rs", "containers.rs", "threads.rs", "fwd.rs", "chain.rs"];
            let base = loc.file().rsplit('/').next().unwrap_or("");
            if loc.file().starts_with("src/") && HARNESS_FILES.contains(&base) && !loc.file().contains("weak/") {
                let p = info.payload();
                let msg = p.downcast_ref::<&'static str>().map(|s| s.to_string()).or_else(|| p.downcast_ref::<String>().cloned()).unwrap_or_default();
                // (`#[track_caller]` attributes the crate's specified panics to the calling harness line)
                let specified = msg.starts_with("Cc::finalize_again cannot be called") || msg.starts_with("Too many references");
                if msg != "ccmc-injected-fault" && msg != "ccmc-closure-panic" && msg != "warm-up" && !specified {
                    eprintln!("HARNESS-PANIC at {}:{}: {}", loc.file(), loc.line(), msg);
                }
            }
        }
    }));
    crash::install_handlers();
    match cmd.as_str() {
        "explore" => {
            let la = lens_args(&m);
            let cfg = lens::build(&la);
            let getf = |k: &str, d: f64| -> f64 { m.get(k).map_or(d, |v| v.parse().expect("bad number")) };
            let lim = explore::Limits {
                max_depth: getf("depth", 0.0) as usize,
                max_states: getf("max-states", 4.0e7) as u64,
                max_seconds: getf("max-seconds", 3600.0),
                threads: getf("threads", 16.0) as usize,
                seed: getf("seed", 0.0) as u64,
                fresh_thread_depth: getf("fresh", 3.0) as usize,
                focus: m.get("focus").cloned(),
                seed_family: m.get("seed-family").cloned(),
            };
            let r = explore::explore(&cfg, &lim);
            let found_json = |f: &explore::Found| {
                J::obj(vec![
                    ("history", J::s(&encode_history(&f.history))),
                    ("history_pretty", J::s(&fmt_history(&f.history))),
                    ("epilogue", J::s(&encode_history(&f.epilogue))),
                    ("epilogue_pretty", J::s(&fmt_history(&f.epilogue))),
                    ("violations", J::Arr(f.violations.iter().map(viol_json).collect())),
                ])
            };
            let pruned: Vec<J> = r.pruned_other.iter().map(|(p, n, f)| J::obj(vec![("property", J::s(p)), ("count", J::n(*n as f64)), ("sample", found_json(f))])).collect();
            let found: Vec<J> = r
                .found
                .iter()
                .take(20)
                .map(|f| {
                    J::obj(vec![
                        ("history", J::s(&encode_history(&f.history))),
                        ("history_pretty", J::s(&fmt_history(&f.history))),
                        ("epilogue", J::s(&encode_history(&f.epilogue))),
                        ("epilogue_pretty", J::s(&fmt_history(&f.epilogue))),
                        ("violations", J::Arr(f.violations.iter().map(viol_json).collect())),
                    ])
                })
                .collect();
            let st = &r.stats;
            let out = J::obj(vec![
                ("lens", J::s(cfg.name)),
                ("build", J::s(&build_cfg_name())),
                ("scope", J::obj(vec![("objects", J::n(cfg.nobj as f64)), ("vars", J::n(cfg.nvars as f64)), ("traced_cells", J::n(cfg.ncells as f64)), ("untraced_cell", J::Bool(cfg.ucell)), ("weak_vars", J::n(cfg.nw as f64)), ("cleanable_vars", J::n(cfg.nc as f64)), ("max_faults", J::n(cfg.max_faults as f64)), ("fault_kinds", J::n(cfg.fault_kinds as f64)), ("fin_menu", J::Arr(cfg.fin_menu.iter().map(|x| J::s(&format!("{:?}", world::FinScript::from_u8(*x)))).collect())), ("drop_menu", J::Arr(cfg.drop_menu.iter().map(|x| J::s(&format!("{:?}", world::DropScript::from_u8(*x)))).collect())), ("closure_menu", J::Arr(cfg.closure_menu.iter().map(|x| J::s(&format!("{:?}", world::Closure::from_u8(*x)))).collect())), ("action_menu", J::Arr(cfg.action_menu.iter().map(|x| J::s(&format!("{:?}", world::ActionKind::from_u8(*x)))).collect())), ("depth_bound", J::n(lim.max_depth as f64))])),
                ("states", J::n(r.states as f64)),
                ("transitions", J::n(r.transitions as f64)),
                ("executions", J::n(r.executions as f64)),
                ("fault_transitions", J::n(r.fault_transitions as f64)),
                ("max_depth_completed", J::n(r.max_depth_completed as f64)),
                ("fixpoint", J::Bool(r.fixpoint && lim.seed_family.is_none())),
                ("seed_family", lim.seed_family.as_ref().map_or(J::Null, |s| J::s(s))),
                ("seed_prefixes", J::n(r.seed_prefixes as f64)),
                ("seed_states", J::n(r.seed_states as f64)),
                ("cut_reason", r.cut_reason.as_ref().map_or(J::Null, |s| J::s(s))),
                ("states_with_nonempty_buffer", J::n(r.states_with_buffer as f64)),
                ("states_by_buffered_objects", J::Arr(r.buffered_hist.iter().map(|x| J::n(*x as f64)).collect())),
                ("double_replays", J::n(r.double_replays as f64)),
                ("fresh_thread_checks", J::n(r.fresh_thread_checks as f64)),
                ("level_sizes", J::Arr(r.level_sizes.iter().map(|x| J::n(*x as f64)).collect())),
                ("samples", J::Arr(r.samples.iter().map(|h| J::s(&fmt_history(h))).collect())),
                (
                    "vacuity",
                    J::obj(vec![
                        ("reclaimed_by_collector", J::n(st.reclaimed_by_collector as f64)),
                        ("reclaimed_by_rc", J::n(st.reclaimed_by_rc as f64)),
                        ("resurrections", J::n(st.resurrections as f64)),
                        ("upgrades_some", J::n(st.upgrades_some as f64)),
                        ("upgrades_none", J::n(st.upgrades_none as f64)),
                        ("unwrap_ok", J::n(st.unwrap_ok as f64)),
                        ("unwrap_err", J::n(st.unwrap_err as f64)),
                        ("faults_fired", J::n(st.faults_fired as f64)),
                        ("nested_collect_noop", J::n(st.nested_collect_noop as f64)),
                        ("nested_collect_real", J::n(st.nested_collect_real as f64)),
                        ("actions_run", J::n(st.actions_run as f64)),
                        ("auto_collections", J::n(st.auto_collections as f64)),
                    ]),
                ),
                ("machinery_errors", J::Arr(r.machinery_errors.iter().take(10).map(|s| J::s(s)).collect())),
                ("found", J::Arr(found)),
                ("pruned_other_properties", J::Arr(pruned)),
                ("lens_args", J::s(&std::env::args().skip(2).collect::<Vec<_>>().join(" "))),
                ("wall_s", J::n(r.wall_s)),
            ]);
            let text = out.to_string();
            match m.get("out") {
                Some(p) => std::fs::write(p, text).expect("write out"),
                None => println!("{}", text),
            }
            if !r.machinery_errors.is_empty() {
                std::process::exit(2);
            }
            std::process::exit(if r.found.is_empty() { 0 } else { 1 });
        },
        "replay" => {
            let la = lens_args(&m);
            let cfg = lens::build(&la);
            let h = decode_history(m.get("history").expect("--history")).expect("bad history");
            explore::warm_up_thread();
            crash::set_inflight(0, &h);
            let verbose = m.contains_key("verbose");
            if verbose {
                for i in 0..=h.len() {
                    let r = explore::run_history(&cfg, &h[..i], false, true);
                    println!("after {:40} key {:032x} viol {:?}", if i == 0 { "<init>".to_string() } else { format!("{:?}", h[i - 1]) }, r.key, r.violations.iter().map(|v| format!("{}:{}: {}", v.prop, v.pred, v.msg)).collect::<Vec<_>>());
                    if !r.violations.is_empty() {
                        break;
                    }
                }
            }
            let r = explore::run_history(&cfg, &h, true, false);
            let r2 = explore::run_history(&cfg, &h, true, false);
            let same = r.key == r2.key && r.violations.len() == r2.violations.len();
            let out = J::obj(vec![
                ("history_pretty", J::s(&fmt_history(&h))),
                ("epilogue_pretty", J::s(&fmt_history(&r.epilogue))),
                ("violations", J::Arr(r.violations.iter().map(viol_json).collect())),
                ("deterministic", J::Bool(same)),
            ]);
            println!("{}", out.to_string());
            if !same {
                std::process::exit(2);
            }
            std::process::exit(if r.violations.is_empty() { 0 } else { 1 });
        },
        "fwd" => {
            let t0 = std::time::Instant::now();
            alloc::init_thread();
            #[cfg(feature = "auto")]
            let _ = rust_cc::config::config(|c| c.set_auto_collect(false));
            let (st, vs) = fwd::run();
            let found: Vec<J> = vs.iter().take(10).map(|v| J::obj(vec![("history", J::s("")), ("history_pretty", J::s(&v.msg)), ("epilogue", J::s("")), ("epilogue_pretty", J::s("")), ("violations", J::Arr(vec![viol_json(v)]))])).collect();
            let out = J::obj(vec![
                ("lens", J::s("fwd")),
                ("build", J::s(&build_cfg_name())),
                ("states", J::n(st.pairs as f64)),
                ("transitions", J::n(st.evaluations as f64)),
                ("executions", J::n(st.evaluations as f64)),
                ("distinct_outcomes", J::n(st.distinct_outcomes.len() as f64)),
                ("max_depth_completed", J::n(1.0)),
                ("fixpoint", J::Bool(true)),
                ("cut_reason", J::Null),
                ("samples", J::Arr(st.samples.iter().map(|s| J::s(s)).collect())),
                ("vacuity", J::obj(vec![("distinct_outcomes", J::n(st.distinct_outcomes.len() as f64))])),
                ("machinery_errors", J::Arr(vec![])),
                ("found", J::Arr(found)),
                ("lens_args", J::s("fwd")),
                ("wall_s", J::n(t0.elapsed().as_secs_f64())),
            ]);
            emit(&m, &out, vs.is_empty());
        },
        #[cfg(feature = "fin")]
        "chain" => {
            let t0 = std::time::Instant::now();
            alloc::init_thread();
            let max_n: usize = m.get("max-n").map_or(24, |v| v.parse().expect("bad number"));
            let (st, vs) = chain::run(max_n);
            let found: Vec<J> = vs.iter().take(5).map(|v| J::obj(vec![("history", J::s("")), ("history_pretty", J::s(&v.msg)), ("epilogue", J::s("")), ("epilogue_pretty", J::s("")), ("violations", J::Arr(vec![viol_json(v)]))])).collect();
            let out = J::obj(vec![
                ("lens", J::s("chain")),
                ("build", J::s(&build_cfg_name())),
                ("states", J::n(st.cases as f64)),
                ("transitions", J::n(st.collects as f64)),
                ("executions", J::n(st.cases as f64)),
                ("max_depth_completed", J::n(max_n as f64)),
                ("fixpoint", J::Bool(true)),
                ("cut_reason", J::Null),
                ("samples", J::Arr(st.samples.iter().map(|s| J::s(s)).collect())),
                ("vacuity", J::obj(vec![("cases", J::n(st.cases as f64)), ("collect_calls", J::n(st.collects as f64)), ("max_tracing_passes_in_one_call", J::n(st.max_episodes as f64)), ("callbacks", J::n(st.callbacks as f64)), ("distinct_outcomes", J::n(st.distinct.len() as f64))])),
                ("machinery_errors", J::Arr(vec![])),
                ("found", J::Arr(found)),
                ("lens_args", J::s(&std::env::args().skip(1).collect::<Vec<_>>().join(" "))),
                ("wall_s", J::n(t0.elapsed().as_secs_f64())),
            ]);
            emit(&m, &out, vs.is_empty());
        },
        #[cfg(feature = "auto")]
        "mixed" => {
            let t0 = std::time::Instant::now();
            let depth: usize = m.get("depth").map_or(5, |v| v.parse().expect("bad number"));
            let (st, vs) = mixed::run(depth);
            let found: Vec<J> = vs.iter().take(5).map(|v| J::obj(vec![("history", J::s("")), ("history_pretty", J::s(&v.msg)), ("epilogue", J::s("")), ("epilogue_pretty", J::s("")), ("violations", J::Arr(vec![viol_json(v)]))])).collect();
            let out = J::obj(vec![
                ("lens", J::s("mixed")),
                ("build", J::s(&build_cfg_name())),
                ("states", J::n(st.histories as f64)),
                ("transitions", J::n(st.steps as f64)),
                ("executions", J::n(st.histories as f64)),
                ("max_depth_completed", J::n(depth as f64)),
                ("fixpoint", J::Bool(false)),
                ("cut_reason", J::s(&format!("depth bound {}", depth))),
                ("samples", J::Arr(st.samples.iter().map(|s| J::s(s)).collect())),
                ("vacuity", J::obj(vec![("class_pairs_x_auto", J::n(st.pairs as f64)), ("histories", J::n(st.histories as f64)), ("collections_started_by_a_creation", J::n(st.auto_collections as f64))])),
                ("machinery_errors", J::Arr(vec![])),
                ("found", J::Arr(found)),
                ("lens_args", J::s(&std::env::args().skip(1).collect::<Vec<_>>().join(" "))),
                ("wall_s", J::n(t0.elapsed().as_secs_f64())),
            ]);
            emit(&m, &out, vs.is_empty());
        },
        "rcchain" => {
            let t0 = std::time::Instant::now();
            alloc::init_thread();
            let max_n: usize = m.get("max-n").map_or(200, |v| v.parse().expect("bad number"));
            let extra: Vec<usize> = m.get("extra").map_or(vec![], |v| v.split(',').filter(|x| !x.is_empty()).map(|x| x.parse().expect("bad number")).collect());
            let (st, vs) = chain::run_rc(max_n, &extra);
            let found: Vec<J> = vs.iter().take(5).map(|v| J::obj(vec![("history", J::s("")), ("history_pretty", J::s(&v.msg)), ("epilogue", J::s("")), ("epilogue_pretty", J::s("")), ("violations", J::Arr(vec![viol_json(v)]))])).collect();
            let out = J::obj(vec![
                ("lens", J::s("rcchain")),
                ("build", J::s(&build_cfg_name())),
                ("states", J::n(st.cases as f64)),
                ("transitions", J::n(st.cases as f64)),
                ("executions", J::n(st.cases as f64)),
                ("max_depth_completed", J::n(max_n as f64)),
                ("fixpoint", J::Bool(true)),
                ("cut_reason", J::Null),
                ("samples", J::Arr(st.samples.iter().map(|s| J::s(s)).collect())),
                ("vacuity", J::obj(vec![("cases", J::n(st.cases as f64)), ("earlier_collections", J::n(st.collects as f64)), ("distinct_shapes", J::n(st.distinct.len() as f64))])),
                ("machinery_errors", J::Arr(vec![])),
                ("found", J::Arr(found)),
                ("lens_args", J::s(&std::env::args().skip(1).collect::<Vec<_>>().join(" "))),
                ("wall_s", J::n(t0.elapsed().as_secs_f64())),
            ]);
            emit(&m, &out, vs.is_empty());
        },
        "interleave" => {
            let t0 = std::time::Instant::now();
            let getf = |k: &str, d: f64| -> f64 { m.get(k).map_or(d, |v| v.parse().expect("bad number")) };
            let thorough = m.contains_key("thorough");
            let r = threads::interleave(getf("max-threads", 8.0) as usize, getf("pair-len", 4.0) as usize, getf("triple-len", 2.0) as usize, thorough);
            let found: Vec<J> = r.found.iter().take(5).map(|(d, vs)| J::obj(vec![("history", J::s("")), ("history_pretty", J::s(d)), ("epilogue", J::s("")), ("epilogue_pretty", J::s("")), ("violations", J::Arr(vs.iter().map(viol_json).collect()))])).collect();
            let out = J::obj(vec![
                ("lens", J::s("interleave")),
                ("build", J::s(&build_cfg_name())),
                ("states", J::n(r.distinct_outcomes as f64)),
                ("transitions", J::n(r.steps as f64)),
                ("executions", J::n(r.schedules as f64)),
                ("max_depth_completed", J::n(0.0)),
                ("fixpoint", J::Bool(false)),
                ("cut_reason", J::s("all interleavings at API-call granularity of every program pair (and selected triples); 4+ threads: round-robin schedules and their rotations only")),
                ("samples", J::Arr(r.samples.iter().map(|s| J::s(s)).collect())),
                ("vacuity", J::obj(vec![("schedules", J::n(r.schedules as f64)), ("program_tuples", J::n(r.tuples as f64)), ("steps", J::n(r.steps as f64)), ("distinct_thread_states", J::n(r.distinct_outcomes as f64))])),
                ("machinery_errors", J::Arr(vec![])),
                ("found", J::Arr(found)),
                ("lens_args", J::s(&std::env::args().skip(1).collect::<Vec<_>>().join(" "))),
                ("wall_s", J::n(t0.elapsed().as_secs_f64())),
            ]);
            emit(&m, &out, r.found.is_empty());
        },
        "teardown" => {
            // One scenario per process: exit status and the report line are the verdict
            let get = |k: &str| -> u32 { m.get(k).map_or(0, |v| v.parse().expect("bad number")) };
            let (order, kind, tlsc, on_main) = (get("order"), get("kind"), get("tls-collects") != 0, get("main") != 0);
            #[cfg(feature = "auto")]
            let _ = ();
            if on_main {
                threads::teardown::scenario(order, kind, tlsc);
                println!("TEARDOWN main {}", threads::teardown::report());
                // thread-local destructors of the main thread run after this point
            } else {
                let h = std::thread::spawn(move || threads::teardown::scenario(order, kind, tlsc));
                let ok = h.join().is_ok();
                println!("TEARDOWN spawned joined={} {}", ok, threads::teardown::report());
                if !ok {
                    std::process::exit(3);
                }
            }
            std::process::exit(0);
        },
        "probes" => {
            let t0 = std::time::Instant::now();
            alloc::init_thread();
            #[cfg(feature = "auto")]
            let _ = rust_cc::config::config(|c| c.set_auto_collect(false));
            let r = std::panic::catch_unwind(containers::run);
            let (st, vs) = match r {
                Ok(x) => x,
                Err(p) => {
                    let msg = p.downcast_ref::<&'static str>().map(|s| s.to_string()).or_else(|| p.downcast_ref::<String>().cloned()).unwrap_or_default();
                    (containers::ProbeStats { instances: 0, trace_invocations: 0, probes: 0, samples: vec![] }, vec![world::Violation { prop: "ANY", pred: "P-nopanic", msg: format!("unexpected panic in the probe grid: {}", msg) }])
                },
            };
            let found: Vec<J> = vs.iter().take(10).map(|v| J::obj(vec![("history", J::s("")), ("history_pretty", J::s(&v.msg)), ("epilogue", J::s("")), ("epilogue_pretty", J::s("")), ("violations", J::Arr(vec![viol_json(v)]))])).collect();
            let out = J::obj(vec![
                ("lens", J::s("probes")),
                ("build", J::s(&build_cfg_name())),
                ("states", J::n(st.instances as f64)),
                ("transitions", J::n(st.trace_invocations as f64)),
                ("executions", J::n(st.instances as f64)),
                ("max_depth_completed", J::n(1.0)),
                ("fixpoint", J::Bool(true)),
                ("cut_reason", J::Null),
                ("samples", J::Arr(st.samples.iter().map(|s| J::s(s)).collect())),
                ("vacuity", J::obj(vec![("container_instances", J::n(st.instances as f64)), ("probes", J::n(st.probes as f64)), ("trace_invocations", J::n(st.trace_invocations as f64))])),
                ("machinery_errors", J::Arr(vs.iter().filter(|v| v.prop == "MACHINERY").map(|v| J::s(&v.msg)).collect())),
                ("found", J::Arr(found)),
                ("lens_args", J::s("probes")),
                ("wall_s", J::n(t0.elapsed().as_secs_f64())),
            ]);
            emit(&m, &out, vs.is_empty());
        },
        "containers" => {
            let getf = |k: &str, d: f64| -> f64 { m.get(k).map_or(d, |v| v.parse().expect("bad number")) };
            let all = containers_gen::cases();
            let full = m.get("set").map_or(false, |s| s == "full");
            let only = m.get("case").cloned();
            let cases: Vec<(String, fn() -> Box<dyn mini::TypedWorld>)> = all.iter().filter(|c| only.as_ref().map_or(full || c.1, |o| c.0 == o)).map(|c| (c.0.to_string(), c.2)).collect();
            let cfg = mini::MiniCfg { nobj: getf("n", 2.0) as usize, depth: getf("depth", 5.0) as usize, weak_ops: false, cyclic_ops: false, prop_override: Some("C17") };
            mini_main("containers", &m, cases, cfg, getf("threads", 16.0) as usize);
        },
        "grid" => {
            let getf = |k: &str, d: f64| -> f64 { m.get(k).map_or(d, |v| v.parse().expect("bad number")) };
            let all = grid::cases();
            let full = m.get("set").map_or(false, |s| s == "full");
            let only = m.get("case").cloned();
            let cases: Vec<&grid::GridCase> = all.iter().filter(|c| only.as_ref().map_or(full || c.quick, |o| &c.label == o)).collect();
            let cfg = mini::MiniCfg { nobj: getf("n", 2.0) as usize, depth: getf("depth", 5.0) as usize, weak_ops: true, cyclic_ops: true, prop_override: None };
            mini_main("grid", &m, cases.iter().map(|c| (c.label.clone(), c.make)).collect(), cfg, getf("threads", 16.0) as usize);
        },
        #[cfg(feature = "auto")]
        "policy" => {
            let getf = |k: &str, d: f64| -> f64 { m.get(k).map_or(d, |v| v.parse().expect("bad number")) };
            if let Err(e) = policy::check_box_sizes() {
                eprintln!("MACHINERY: {}", e);
                std::process::exit(2);
            }
            let sys = policy::PolicySys {
                max_live: getf("max-live", 3.0) as usize,
                max_objects: getf("max-objects", 4.0) as usize,
                sizes: m.get("sizes").map(|s| parse_list(s)).unwrap_or_else(|| vec![0, 1, 2, 3, 4, 5]),
                percents: m.get("percents").map(|s| parse_list(s)).unwrap_or_else(|| vec![0, 1, 2, 3, 4, 5, 6]),
            };
            if let Some(h) = m.get("history") {
                // replay: history given as debug strings separated by ';' is not parsed; use indices "a:1,f:0,..."
                let ops = policy_parse(h);
                use bfs::Sys;
                sys.thread_init();
                for i in 0..=ops.len() {
                    let r = sys.run(&ops[..i]);
                    println!("after {:?}: key {:032x} violations {:?}", if i == 0 { None } else { Some(ops[i - 1]) }, r.key, r.violations.iter().map(|v| &v.msg).collect::<Vec<_>>());
                    if !r.violations.is_empty() {
                        std::process::exit(1);
                    }
                }
                std::process::exit(0);
            }
            let r = bfs::bfs(&sys, getf("depth", 6.0) as usize, getf("max-states", 2.0e7) as u64, getf("max-seconds", 3600.0), getf("threads", 16.0) as usize);
            let out = bfs_json("policy", &r, |h| h.iter().map(|o| format!("{:?}", o)).collect::<Vec<_>>().join(" ; "), |h| h.iter().map(policy_enc).collect::<Vec<_>>().join(","));
            emit(&m, &out, r.found.is_empty());
        },
        _ => {
            eprintln!("usage: ccmc explore|replay --lens <{}> [--n N --v V --depth D --faults F ...]", lens::lens_names().join("|"));
            std::process::exit(2);
        },
    }
}
