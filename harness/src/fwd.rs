//! C20 (forwarding impls): exhaustive enumeration of all ordered pairs of small complete value sets per payload
//! type; every comparison / hashing / formatting trait method on Cc<T> must agree with the same method on T.

use std::cmp::Ordering;
use std::collections::hash_map::DefaultHasher;
use std::fmt::{Debug, Display};
use std::hash::{Hash, Hasher};

use rust_cc::{Cc, Trace};

use crate::world::Violation;

pub struct FwdStats {
    pub pairs: u64,
    pub evaluations: u64,
    pub distinct_outcomes: std::collections::HashSet<String>,
    pub samples: Vec<String>,
}

fn h<T: Hash>(x: &T) -> u64 {
    let mut s = DefaultHasher::new();
    x.hash(&mut s);
    s.finish()
}

fn bad(vs: &mut Vec<Violation>, ty: &str, what: &str, a: &dyn Debug, b: &dyn Debug, got: &dyn Debug, want: &dyn Debug) {
    vs.push(Violation { prop: "C20", pred: "P-fwd", msg: format!("{} on Cc<{}> for ({:?}, {:?}) gives {:?}, on the values it gives {:?}", what, ty, a, b, got, want) });
}

/// A sink that accepts `limit` bytes and then fails: formatting through it is interrupted at that point
struct Limited {
    limit: usize,
    got: String,
}
impl std::fmt::Write for Limited {
    fn write_str(&mut self, s: &str) -> std::fmt::Result {
        if self.got.len() + s.len() > self.limit {
            return Err(std::fmt::Error);
        }
        self.got.push_str(s);
        Ok(())
    }
}

/// Debug formatting interrupted by a failing writer at every possible output position, with plain, alternate, hex
/// and padded flags: what reached the sink and the result must be those of T - and so must every *later* formatting
/// of the same pointer and of its clone.
fn interrupted_debug<T: Trace + Clone + Debug + 'static>(ty: &str, a: &T, st: &mut FwdStats, vs: &mut Vec<Violation>) {
    use std::fmt::Write;
    let ca = Cc::new(a.clone());
    let cl = ca.clone();
    let full = format!("{:#?}", a).len().max(format!("{:>14?}", a).len());
    for limit in 0..=full {
        for style in 0..4 {
            st.evaluations += 1;
            let (mut wc, mut wt) = (Limited { limit, got: String::new() }, Limited { limit, got: String::new() });
            let (rc, rt) = match style {
                0 => (write!(wc, "{:?}", ca), write!(wt, "{:?}", a)),
                1 => (write!(wc, "{:#?}", ca), write!(wt, "{:#?}", a)),
                2 => (write!(wc, "{:x?}", ca), write!(wt, "{:x?}", a)),
                _ => (write!(wc, "{:>14?}", ca), write!(wt, "{:>14?}", a)),
            };
            if rc.is_ok() != rt.is_ok() || wc.got != wt.got {
                bad(vs, ty, &format!("Debug into a sink that fails after {} bytes", limit), a, a, &wc.got, &wt.got);
                return;
            }
            st.distinct_outcomes.insert(format!("{}:interrupted:{}", ty, rc.is_ok()));
            // formatting again (the same pointer, its clone) is unaffected by the interrupted attempt
            if format!("{:?}", ca) != format!("{:?}", a) || format!("{:#?}", cl) != format!("{:#?}", a) || format!("{:x?}|{:>14?}", cl, ca) != format!("{:x?}|{:>14?}", a, a) {
                bad(vs, ty, &format!("Debug after an attempt that failed after {} bytes", limit), a, a, &format!("{:?}", ca), &format!("{:?}", a));
                return;
            }
        }
    }
}

fn partial<T: Trace + Clone + PartialOrd + Debug + 'static>(ty: &str, vals: &[T], st: &mut FwdStats, vs: &mut Vec<Violation>) {
    for a in vals {
        interrupted_debug(ty, a, st, vs);
        for a2 in vals.iter().take(1) {
            let _ = a2;
        }
    }
    for a in vals {
        for b in vals {
            st.pairs += 1;
            // distinct allocations, and the same allocation through a clone
            let ca = Cc::new(a.clone());
            let cb_fresh = Cc::new(b.clone());
            let variants: Vec<(&str, Cc<T>)> = if std::ptr::eq(a, b) { vec![("other allocation", cb_fresh), ("clone of the same allocation", ca.clone())] } else { vec![("other allocation", cb_fresh)] };
            for (how, cb) in variants {
                macro_rules! cmp2 {
                    ($name:expr, $f:expr, $g:expr) => {{
                        st.evaluations += 1;
                        let got = $f(&ca, &cb);
                        let want = $g(a, b);
                        st.distinct_outcomes.insert(format!("{}:{}:{:?}", ty, $name, want));
                        if got != want {
                            bad(vs, ty, &format!("{} ({})", $name, how), a, b, &got, &want);
                        }
                    }};
                }
                cmp2!("eq", |x: &Cc<T>, y: &Cc<T>| x == y, |x: &T, y: &T| x == y);
                cmp2!("ne", |x: &Cc<T>, y: &Cc<T>| x != y, |x: &T, y: &T| x != y);
                cmp2!("lt", |x: &Cc<T>, y: &Cc<T>| x < y, |x: &T, y: &T| x < y);
                cmp2!("le", |x: &Cc<T>, y: &Cc<T>| x <= y, |x: &T, y: &T| x <= y);
                cmp2!("gt", |x: &Cc<T>, y: &Cc<T>| x > y, |x: &T, y: &T| x > y);
                cmp2!("ge", |x: &Cc<T>, y: &Cc<T>| x >= y, |x: &T, y: &T| x >= y);
                cmp2!("partial_cmp", |x: &Cc<T>, y: &Cc<T>| x.partial_cmp(y), |x: &T, y: &T| x.partial_cmp(y));
                st.evaluations += 2;
                let dbg_ok = format!("{:?}", ca) == format!("{:?}", a) && format!("{:#?}", cb) == format!("{:#?}", b) && format!("{:#?}", ca) == format!("{:#?}", a) && format!("{:>12?}|{:<12?}", ca, cb) == format!("{:>12?}|{:<12?}", a, b);
                if !dbg_ok {
                    bad(vs, ty, "Debug", a, b, &format!("{:?}", ca), &format!("{:?}", a));
                }
                // Pointer formatting and Borrow / AsRef / Deref agree on the address of the value
                let pa: &T = &ca;
                let pb: &T = std::borrow::Borrow::borrow(&ca);
                let pc: &T = ca.as_ref();
                if format!("{:p}", ca) != format!("{:p}", pa as *const T) || pa as *const T != pb as *const T || pa as *const T != pc as *const T {
                    bad(vs, ty, "Pointer/Borrow/AsRef address", a, b, &format!("{:p}", ca), &format!("{:p}", pa as *const T));
                }
            }
            if st.samples.len() < 6 && st.pairs % 7 == 1 {
                st.samples.push(format!("Cc<{}>: ({:?}, {:?})", ty, a, b));
            }
        }
    }
}

fn total<T: Trace + Clone + Ord + Hash + Debug + 'static>(ty: &str, vals: &[T], st: &mut FwdStats, vs: &mut Vec<Violation>) {
    for a in vals {
        for b in vals {
            let (ca, cb) = (Cc::new(a.clone()), Cc::new(b.clone()));
            st.evaluations += 4;
            let got: Ordering = ca.cmp(&cb);
            if got != a.cmp(b) {
                bad(vs, ty, "cmp", a, b, &got, &a.cmp(b));
            }
            if ca.clone().max(cb.clone()) != Cc::new(a.clone().max(b.clone())) || ca.clone().min(cb.clone()) != Cc::new(a.clone().min(b.clone())) {
                bad(vs, ty, "max/min", a, b, &"?", &"?");
            }
            // a pointer and its own clone compare like the value with itself
            let cc2 = ca.clone();
            if ca.cmp(&cc2) != a.cmp(a) || (ca == cc2) != (a == a) {
                bad(vs, ty, "cmp/eq with its own clone", a, a, &ca.cmp(&cc2), &a.cmp(a));
            }
            // hash-map lookups through Borrow<T> rely on identical hashes
            let mut set: std::collections::HashSet<Cc<T>> = std::collections::HashSet::new();
            set.insert(ca.clone());
            if !set.contains(a) {
                bad(vs, ty, "HashSet<Cc<T>>::contains(&T)", a, a, &false, &true);
            }
            if h(&ca) != h(a) || h(&cb) != h(b) {
                bad(vs, ty, "hash", a, b, &h(&ca), &h(a));
            }
            // Eq + Hash consistency as used by hash maps
            if (h(&ca) == h(&cb)) != (h(a) == h(b)) {
                bad(vs, ty, "hash equality", a, b, &(h(&ca) == h(&cb)), &(h(a) == h(b)));
            }
        }
    }
}

fn display<T: Trace + Clone + Display + Debug + 'static>(ty: &str, vals: &[T], st: &mut FwdStats, vs: &mut Vec<Violation>) {
    for a in vals {
        st.evaluations += 2;
        let c = Cc::new(a.clone());
        if format!("{}", c) != format!("{}", a) || format!("{:>9}|{:<7}", c, c) != format!("{:>9}|{:<7}", a, a) || format!("{:^11.3}|{:+}", c, c) != format!("{:^11.3}|{:+}", a, a) || format!("{:08.2}", c) != format!("{:08.2}", a) {
            bad(vs, ty, "Display", a, a, &format!("{}", c), &format!("{}", a));
        }
    }
}

fn default<T: Trace + Default + PartialEq + Debug + 'static>(ty: &str, st: &mut FwdStats, vs: &mut Vec<Violation>) {
    st.evaluations += 1;
    let c: Cc<T> = Default::default();
    if *c != T::default() {
        bad(vs, ty, "Default", &"-", &"-", &*c, &T::default());
    }
    if c.strong_count() != 1 {
        bad(vs, ty, "Default (strong_count)", &"-", &"-", &c.strong_count(), &1);
    }
}

pub fn run() -> (FwdStats, Vec<Violation>) {
    let mut st = FwdStats { pairs: 0, evaluations: 0, distinct_outcomes: Default::default(), samples: vec![] };
    let mut vs = Vec::new();
    let i32s = [i32::MIN, -2, -1, 0, 1, 2, i32::MAX];
    let u8s = [0u8, 1, 2, 254, 255];
    let f64s = [f64::NAN, f64::NEG_INFINITY, -1.5, -0.0, 0.0, f64::MIN_POSITIVE, 1.5, f64::INFINITY];
    let strs: Vec<String> = ["", "a", "b", "ab", "ba", "A"].iter().map(|s| s.to_string()).collect();
    let pairs: Vec<(i8, i8)> = [-1i8, 0, 1].iter().flat_map(|x| [-1i8, 0, 1].iter().map(move |y| (*x, *y))).collect();
    let opts = [None, Some(false), Some(true)];
    let chars = ['a', 'b', '\u{0}', 'é'];
    partial("i32", &i32s, &mut st, &mut vs);
    total("i32", &i32s, &mut st, &mut vs);
    display("i32", &i32s, &mut st, &mut vs);
    default::<i32>("i32", &mut st, &mut vs);
    partial("u8", &u8s, &mut st, &mut vs);
    total("u8", &u8s, &mut st, &mut vs);
    display("u8", &u8s, &mut st, &mut vs);
    default::<u8>("u8", &mut st, &mut vs);
    partial("f64", &f64s, &mut st, &mut vs);
    display("f64", &f64s, &mut st, &mut vs);
    default::<f64>("f64", &mut st, &mut vs);
    partial("String", &strs, &mut st, &mut vs);
    total("String", &strs, &mut st, &mut vs);
    display("String", &strs, &mut st, &mut vs);
    default::<String>("String", &mut st, &mut vs);
    partial("(i8, i8)", &pairs, &mut st, &mut vs);
    total("(i8, i8)", &pairs, &mut st, &mut vs);
    default::<(i8, i8)>("(i8, i8)", &mut st, &mut vs);
    partial("Option<bool>", &opts, &mut st, &mut vs);
    total("Option<bool>", &opts, &mut st, &mut vs);
    default::<Option<bool>>("Option<bool>", &mut st, &mut vs);
    partial("char", &chars, &mut st, &mut vs);
    total("char", &chars, &mut st, &mut vs);
    display("char", &chars, &mut st, &mut vs);
    (st, vs)
}
