//! Lens definitions: which part of the API surface an exploration exercises.

use crate::ops::Code::{self, *};
use crate::world::LensCfg;

fn codes(list: &[Code]) -> u64 {
    list.iter().fold(0u64, |m, c| m | (1u64 << *c as u8))
}

pub const KIND_TRACE: u8 = 1 << 0;
pub const KIND_FINALIZE: u8 = 1 << 1;
pub const KIND_DROP: u8 = 1 << 2;
pub const KIND_ACTION: u8 = 1 << 3;
pub const KIND_CLOSURE: u8 = 1 << 4;

pub struct LensArgs {
    pub name: String,
    pub n: usize,
    pub v: usize,
    pub w: usize,
    pub c: usize,
    pub cells: usize,
    pub ucell: bool,
    pub faults: u32,
    pub fault_kinds: u8,
    pub fin_menu: Option<Vec<u8>>,
    pub drop_menu: Option<Vec<u8>>,
    pub closure_menu: Option<Vec<u8>>,
    pub action_menu: Option<Vec<u8>>,
    pub max_actions: usize,
    pub sat_k: u8,
    pub no_epilogue: bool,
}

const CORE: &[Code] = &[New, Dup, Drop, Load, Store, Take, MarkAlive, Collect];

pub fn lens_names() -> &'static [&'static str] {
    &["core", "coreh", "fin", "dtor", "weak", "weakfin", "cleaner", "auto", "autoweak", "sat", "cyclic"]
}

pub fn build(a: &LensArgs) -> LensCfg {
    let mut cfg = LensCfg {
        name: "",
        nobj: a.n,
        nvars: a.v,
        ncells: a.cells,
        ucell: a.ucell,
        nw: a.w,
        nc: a.c,
        max_faults: a.faults,
        fault_kinds: a.fault_kinds,
        codes: 0,
        seed_codes: 0,
        fin_menu: vec![0],
        drop_menu: vec![0],
        closure_menu: vec![0],
        action_menu: vec![0],
        auto_lens: false,
        exact_buffer: false,
        epilogue: !a.no_epilogue,
        max_actions: a.max_actions,
        sat_k: a.sat_k,
    };
    let fin_on = cfg!(feature = "fin");
    match a.name.as_str() {
        // Core alphabet: every Cc entry point in isolation, untraced owning field included
        "core" => {
            cfg.name = "core";
            cfg.codes = codes(CORE);
            cfg.exact_buffer = true;
        },
        // Core + collection while a traced RefCell is mutably borrowed
        "coreh" => {
            cfg.name = "coreh";
            cfg.codes = codes(CORE) | codes(&[CollectHolding]);
            cfg.exact_buffer = false;
        },
        // Finalizer scripts (resurrection by clone / move / weak, releasing, allocating, nested collect ...)
        "fin" => {
            cfg.name = "fin";
            cfg.codes = codes(CORE) | codes(&[TakeG, DropG, PutG, SetFin]);
            if fin_on {
                cfg.codes |= codes(&[FinalizeAgain]);
            }
            cfg.fin_menu = a.fin_menu.clone().unwrap_or_else(|| vec![0, 1, 3, 4, 9]);
        },
        // Destructor scripts
        "dtor" => {
            cfg.name = "dtor";
            cfg.codes = codes(CORE) | codes(&[TakeG, DropG, PutG, SetDrop, SetFin]);
            cfg.drop_menu = a.drop_menu.clone().unwrap_or_else(|| vec![0, 2, 3, 4]);
            cfg.fin_menu = a.fin_menu.clone().unwrap_or_else(|| vec![0]);
        },
        // Weak pointers, try_unwrap, new_cyclic
        "weak" => {
            cfg.name = "weak";
            cfg.codes = codes(&[New, Dup, Drop, Store, Take, Collect, Downgrade, Upgrade, DupWeak, DropWeak, TryUnwrap, WeakNew]);
            // exact prediction of the buffered set (C11: an object leaves the buffer when downgraded, upgraded, unwrapped)
            cfg.exact_buffer = true;
        },
        // Weak pointers inside objects + upgrading finalizers / destructors
        "weakfin" => {
            cfg.name = "weakfin";
            cfg.codes = codes(&[New, Dup, Drop, Store, Take, Collect, Downgrade, Upgrade, DropWeak, StoreWeak, TakeWeak, TakeG, DropG, SetFin, SetDrop, TryUnwrap]);
            cfg.fin_menu = a.fin_menu.clone().unwrap_or_else(|| vec![0, 6, 13]);
            cfg.drop_menu = a.drop_menu.clone().unwrap_or_else(|| vec![0, 1]);
        },
        "cyclic" => {
            cfg.name = "cyclic";
            cfg.codes = codes(&[New, Dup, Drop, Store, Collect, Upgrade, DropWeak, DupWeak, TryUnwrap, NewCyclic, TakeWeak, SetAuto]);
            cfg.closure_menu = a.closure_menu.clone().unwrap_or_else(|| vec![0, 1, 2, 4, 5, 6]);
            cfg.auto_lens = true;
        },
        "cleaner" => {
            cfg.name = "cleaner";
            cfg.codes = codes(&[New, Dup, Drop, Store, Take, Collect, Register, Clean, DropCleanable, TakeG, DropG, PutG]);
            cfg.action_menu = a.action_menu.clone().unwrap_or_else(|| vec![0, 1, 3, 4, 5]);
            // optional: scripted finalizers on the objects that actions release (callbacks nested in actions)
            if let Some(m) = a.fin_menu.clone() {
                cfg.codes |= codes(&[SetFin]);
                cfg.fin_menu = m;
            }
        },
        // Many cleaning actions on one Cleaner (slot reuse inside the action map)
        "cleanermany" => {
            cfg.name = "cleanermany";
            cfg.codes = codes(&[New, Drop, Collect, Register, Clean, DropCleanable]);
            cfg.action_menu = a.action_menu.clone().unwrap_or_else(|| vec![0]);
        },
        // Automatic collections on (Cc::new may collect)
        "auto" => {
            cfg.name = "auto";
            cfg.codes = codes(CORE) | codes(&[SetAuto, SetBufThr, NewOwning]);
            cfg.auto_lens = true;
        },
        "autofin" => {
            cfg.name = "autofin";
            cfg.codes = codes(CORE) | codes(&[SetAuto, TakeG, DropG, PutG, SetFin, SetDrop, NewOwning]);
            cfg.fin_menu = a.fin_menu.clone().unwrap_or_else(|| vec![0, 7, 8, 9]);
            cfg.drop_menu = a.drop_menu.clone().unwrap_or_else(|| vec![0, 2]);
            cfg.auto_lens = true;
        },
        // Dynamic phase of a graph-seeded exploration: the heap shape comes from the seed family, the search only
        // releases handles, collects, upgrades weaks and moves the global
        "dyn" => {
            cfg.name = "dyn";
            cfg.codes = codes(&[Dup, Drop, Take, MarkAlive, Collect, TakeG, DropG, Upgrade, DropWeak, Clean, DropCleanable]);
            cfg.seed_codes = codes(&[New, Dup, Store, Drop, Downgrade, StoreWeak, SetFin, SetDrop, Register, PutG]);
            cfg.fin_menu = a.fin_menu.clone().unwrap_or_else(|| vec![0, 6]);
            cfg.drop_menu = a.drop_menu.clone().unwrap_or_else(|| vec![0, 1]);
            cfg.action_menu = a.action_menu.clone().unwrap_or_else(|| vec![]);
        },
        // Cleaners with automatic collections on: Cleaner::register allocates its action map lazily with Cc::new, which
        // may start a collection whose finalizers use the same Cleaner
        "autoclean" => {
            cfg.name = "autoclean";
            cfg.codes = codes(&[New, Dup, Drop, Store, Collect, Register, Clean, DropCleanable, SetFin]);
            cfg.fin_menu = a.fin_menu.clone().unwrap_or_else(|| vec![0, 20]);
            cfg.action_menu = a.action_menu.clone().unwrap_or_else(|| vec![0]);
            cfg.auto_lens = true;
        },
        // dyn with automatic collections on (seed family ga: thresholds prepared by the construction prefix)
        "dynauto" => {
            cfg.name = "dynauto";
            cfg.codes = codes(&[Dup, Drop, Collect, TakeG, DropG]);
            cfg.seed_codes = codes(&[New, Dup, Store, Drop, SetFin, SetDrop, Collect, SetBufThr, SetAuto]);
            cfg.fin_menu = a.fin_menu.clone().unwrap_or_else(|| vec![0, 18]);
            cfg.drop_menu = a.drop_menu.clone().unwrap_or_else(|| vec![0, 7]);
            cfg.auto_lens = true;
        },
        "sat" => {
            cfg.name = "sat";
            cfg.codes = codes(&[New, Dup, Drop, Store, Collect, Downgrade, Upgrade, DupWeak, DropWeak, FillStrong, FillWeak, FillBag, DropStash, CloneExpectPanic, DowngradeExpectPanic, UpgradeExpectPanic, DupWeakExpectPanic]);
            // optional: finalized-and-resurrected objects at the limit (flag bit next to the counter)
            if let Some(m) = a.fin_menu.clone() {
                cfg.codes |= codes(&[SetFin, TakeG, DropG]);
                cfg.fin_menu = m;
            }
        },
        other => panic!("unknown lens {}", other),
    }
    if cfg.seed_codes == 0 {
        cfg.seed_codes = cfg.codes;
    }
    if !cfg!(feature = "weak") {
        cfg.seed_codes &= !codes(&[Downgrade, StoreWeak]);
        cfg.codes &= !codes(&[Downgrade, Upgrade, DupWeak, DropWeak, StoreWeak, TakeWeak, WeakNew, NewCyclic, FillWeak, DowngradeExpectPanic, UpgradeExpectPanic, DupWeakExpectPanic]);
    }
    if !cfg!(feature = "cleaners") {
        cfg.seed_codes &= !codes(&[Register]);
        cfg.codes &= !codes(&[Register, Clean, DropCleanable]);
    }
    if !cfg!(feature = "auto") {
        cfg.codes &= !codes(&[SetAuto, SetBufThr]);
        cfg.auto_lens = false;
    }
    if !fin_on {
        cfg.codes &= !codes(&[FinalizeAgain]);
    }
    cfg
}
