//! C17 (a): probe grid. Every built-in Trace/Finalize impl is instantiated with probe leaves that count calls.
//! `Finalize::finalize` is called directly; `Trace::trace` is driven by a real collection of a `Cc<Holder<C>>`
//! whose own `trace` brackets the container's, so counts are per invocation: every probe present in the value
//! must be reported exactly once (0 times under a mutably borrowed RefCell), and nothing else.

use std::cell::{Cell, RefCell};
use std::marker::PhantomData;
use std::mem::ManuallyDrop;
use std::panic::AssertUnwindSafe;

use rust_cc::{collect_cycles, Cc, Context, Finalize, Trace};

use crate::world::Violation;

const MAXP: usize = 200;

thread_local! {
    static TRACES: RefCell<[u32; MAXP]> = const { RefCell::new([0; MAXP]) };
    static FINS: RefCell<[u32; MAXP]> = const { RefCell::new([0; MAXP]) };
    static INVOCATIONS: Cell<u32> = const { Cell::new(0) };
    static BAD: RefCell<Vec<String>> = const { RefCell::new(Vec::new()) };
    static EXPECT: RefCell<Vec<u8>> = const { RefCell::new(Vec::new()) };
}

pub struct Probe(usize);
unsafe impl Trace for Probe {
    fn trace(&self, _: &mut Context<'_>) {
        TRACES.with(|t| t.borrow_mut()[self.0] += 1);
    }
}
impl Finalize for Probe {
    fn finalize(&self) {
        FINS.with(|t| t.borrow_mut()[self.0] += 1);
    }
}

/// Builds a value, numbering its probes consecutively
pub trait Build: Sized {
    fn build(next: &mut usize) -> Self;
}
impl Build for Probe {
    fn build(next: &mut usize) -> Self {
        let p = Probe(*next);
        *next += 1;
        p
    }
}
impl<T: Build> Build for Box<T> {
    fn build(n: &mut usize) -> Self {
        Box::new(T::build(n))
    }
}
impl<T: Build> Build for Option<T> {
    fn build(n: &mut usize) -> Self {
        Some(T::build(n))
    }
}
impl<T: Build> Build for Result<T, ()> {
    fn build(n: &mut usize) -> Self {
        Ok(T::build(n))
    }
}
impl<T: Build> Build for Result<(), T> {
    fn build(n: &mut usize) -> Self {
        Err(T::build(n))
    }
}
impl<T: Build> Build for RefCell<T> {
    fn build(n: &mut usize) -> Self {
        RefCell::new(T::build(n))
    }
}
impl<T: Build> Build for ManuallyDrop<T> {
    fn build(n: &mut usize) -> Self {
        ManuallyDrop::new(T::build(n))
    }
}
impl<T: Build> Build for AssertUnwindSafe<T> {
    fn build(n: &mut usize) -> Self {
        AssertUnwindSafe(T::build(n))
    }
}
impl<T: Build> Build for Vec<T> {
    fn build(n: &mut usize) -> Self {
        vec![T::build(n), T::build(n)]
    }
}
impl<T: Build> Build for Box<[T]> {
    fn build(n: &mut usize) -> Self {
        vec![T::build(n), T::build(n), T::build(n)].into_boxed_slice()
    }
}
impl<T: Build, const N: usize> Build for [T; N] {
    fn build(n: &mut usize) -> Self {
        std::array::from_fn(|_| T::build(n))
    }
}
macro_rules! tuple_build {
    ($($t:ident),+) => {
        impl<$($t: Build),+> Build for ($($t,)+) {
            fn build(n: &mut usize) -> Self {
                ($($t::build(n),)+)
            }
        }
    };
}
tuple_build!(A);
tuple_build!(A, B);
tuple_build!(A, B, C);
tuple_build!(A, B, C, D);
tuple_build!(A, B, C, D, E);
tuple_build!(A, B, C, D, E, F);
tuple_build!(A, B, C, D, E, F, G);
tuple_build!(A, B, C, D, E, F, G, H);
tuple_build!(A, B, C, D, E, F, G, H, I);
tuple_build!(A, B, C, D, E, F, G, H, I, J);
tuple_build!(A, B, C, D, E, F, G, H, I, J, K);
tuple_build!(A, B, C, D, E, F, G, H, I, J, K, L);

struct Holder<C: Trace + 'static> {
    c: C,
}
unsafe impl<C: Trace + 'static> Trace for Holder<C> {
    fn trace(&self, ctx: &mut Context<'_>) {
        TRACES.with(|t| *t.borrow_mut() = [0; MAXP]);
        self.c.trace(ctx);
        INVOCATIONS.with(|i| i.set(i.get() + 1));
        // judge this invocation
        let exp = EXPECT.with(|e| e.borrow().clone());
        TRACES.with(|t| {
            let t = t.borrow();
            for i in 0..MAXP {
                let want = exp.get(i).copied().unwrap_or(0) as u32;
                if t[i] != want {
                    BAD.with(|b| b.borrow_mut().push(format!("one trace call reported probe {} {} time(s), expected {}", i, t[i], want)));
                }
            }
        });
    }
}
impl<C: Trace + 'static> Finalize for Holder<C> {}

pub struct ProbeStats {
    pub instances: u64,
    pub trace_invocations: u64,
    pub probes: u64,
    pub samples: Vec<String>,
}

fn judge<C: Trace + Finalize + 'static>(label: &str, c: C, expect_trace: Vec<u8>, expect_fin: Vec<u8>, st: &mut ProbeStats, vs: &mut Vec<Violation>, with: impl FnOnce(&C, &mut dyn FnMut())) {
    st.instances += 1;
    st.probes += expect_trace.len() as u64;
    if st.samples.len() < 8 && st.instances % 23 == 1 {
        st.samples.push(format!("{} ({} probes)", label, expect_trace.len()));
    }
    // Finalize: direct call
    FINS.with(|t| *t.borrow_mut() = [0; MAXP]);
    c.finalize();
    FINS.with(|t| {
        let t = t.borrow();
        for i in 0..MAXP {
            let want = expect_fin.get(i).copied().unwrap_or(0) as u32;
            if t[i] != want {
                vs.push(Violation { prop: "C17", pred: "P-visit", msg: format!("{}: Finalize::finalize forwarded to probe {} {} time(s), expected {}", label, i, t[i], want) });
            }
        }
    });
    // Trace: through a real collection
    EXPECT.with(|e| *e.borrow_mut() = expect_trace);
    BAD.with(|b| b.borrow_mut().clear());
    INVOCATIONS.with(|i| i.set(0));
    let h = Cc::new(Holder { c });
    let mut collect = || {
        let h2 = h.clone();
        drop(h2); // buffers the holder
        collect_cycles();
    };
    with(&h.c, &mut collect);
    let inv = INVOCATIONS.with(|i| i.get());
    st.trace_invocations += inv as u64;
    if inv == 0 {
        vs.push(Violation { prop: "MACHINERY", pred: "probes", msg: format!("{}: the holder was never traced", label) });
    }
    BAD.with(|b| {
        for m in b.borrow().iter().take(3) {
            vs.push(Violation { prop: "C17", pred: "P-visit", msg: format!("{}: {}", label, m) });
        }
    });
    drop(h);
}

fn all<C: Build + Trace + Finalize + 'static>(label: &str, st: &mut ProbeStats, vs: &mut Vec<Violation>) {
    let mut n = 0usize;
    let c = C::build(&mut n);
    assert!(n <= MAXP);
    judge(label, c, vec![1; n], vec![1; n], st, vs, |_, collect| collect());
}

macro_rules! nest {
    ($st:ident, $vs:ident; $($o:ident),+) => {
        nest!(@outer $st, $vs; ($($o),+); $($o),+);
    };
    (@outer $st:ident, $vs:ident; $all:tt; $($o:ident),+) => {
        $( nest!(@inner $st, $vs; $o; $all); )+
    };
    (@inner $st:ident, $vs:ident; $o:ident; ($($i:ident),+)) => {
        $( all::<$o<$i<Probe>>>(concat!(stringify!($o), "<", stringify!($i), "<Probe>>"), $st, $vs); )+
    };
}

type ResOk<T> = Result<T, ()>;
type ResErr<T> = Result<(), T>;
type Vec2<T> = Vec<T>;
type Slice3<T> = Box<[T]>;
type Arr2<T> = [T; 2];
type Tup2<T> = (T, T);
type Tup3<T> = (T, u8, T);

impl<T: Build> Build for (T, u8, T) {
    fn build(n: &mut usize) -> Self {
        (T::build(n), 0, T::build(n))
    }
}

pub fn run() -> (ProbeStats, Vec<Violation>) {
    let mut st = ProbeStats { instances: 0, trace_invocations: 0, probes: 0, samples: vec![] };
    let mut vs: Vec<Violation> = Vec::new();
    let (s, v) = (&mut st, &mut vs);
    // tuples 1..12
    all::<(Probe,)>("tuple 1", s, v);
    all::<(Probe, Probe)>("tuple 2", s, v);
    all::<(Probe, Probe, Probe)>("tuple 3", s, v);
    all::<(Probe, Probe, Probe, Probe)>("tuple 4", s, v);
    all::<(Probe, Probe, Probe, Probe, Probe)>("tuple 5", s, v);
    all::<(Probe, Probe, Probe, Probe, Probe, Probe)>("tuple 6", s, v);
    all::<(Probe, Probe, Probe, Probe, Probe, Probe, Probe)>("tuple 7", s, v);
    all::<(Probe, Probe, Probe, Probe, Probe, Probe, Probe, Probe)>("tuple 8", s, v);
    all::<(Probe, Probe, Probe, Probe, Probe, Probe, Probe, Probe, Probe)>("tuple 9", s, v);
    all::<(Probe, Probe, Probe, Probe, Probe, Probe, Probe, Probe, Probe, Probe)>("tuple 10", s, v);
    all::<(Probe, Probe, Probe, Probe, Probe, Probe, Probe, Probe, Probe, Probe, Probe)>("tuple 11", s, v);
    all::<(Probe, Probe, Probe, Probe, Probe, Probe, Probe, Probe, Probe, Probe, Probe, Probe)>("tuple 12", s, v);
    // arrays 0..=32
    macro_rules! arrays { ($($n:literal),+) => { $( all::<[Probe; $n]>(concat!("array ", stringify!($n)), s, v); )+ }; }
    arrays!(0, 1, 2, 3, 4, 5, 6, 7, 8, 9, 10, 11, 12, 13, 14, 15, 16, 17, 18, 19, 20, 21, 22, 23, 24, 25, 26, 27, 28, 29, 30, 31, 32);
    // Vec and slices of every length 0..=8
    for len in (0..=20usize).chain([31, 32, 33, 40, 64, 65, 100, 127, 128, 129]) {
        let vecv: Vec<Probe> = (0..len).map(Probe).collect();
        judge(&format!("Vec len {}", len), vecv, vec![1; len], vec![1; len], s, v, |_, c| c());
        let sl: Box<[Probe]> = (0..len).map(Probe).collect::<Vec<_>>().into_boxed_slice();
        judge(&format!("Box<[T]> len {}", len), sl, vec![1; len], vec![1; len], s, v, |_, c| c());
    }
    // single wrappers and variants
    all::<Box<Probe>>("Box", s, v);
    all::<Option<Probe>>("Option Some", s, v);
    judge("Option None", Option::<Probe>::None, vec![], vec![], s, v, |_, c| c());
    judge("Result Ok", Result::<Probe, Probe>::Ok(Probe(0)), vec![1], vec![1], s, v, |_, c| c());
    judge("Result Err", Result::<Probe, Probe>::Err(Probe(1)), vec![0, 1], vec![0, 1], s, v, |_, c| c());
    all::<RefCell<Probe>>("RefCell free", s, v);
    judge("RefCell shared-borrowed during trace", RefCell::new(Probe(0)), vec![0], vec![1], s, v, |cell, c| {
        let _b = cell.borrow();
        c()
    });
    judge("RefCell mutably borrowed during trace", RefCell::new(Probe(0)), vec![0], vec![1], s, v, |cell, c| {
        let _b = cell.borrow_mut();
        c()
    });
    {
        // Finalize on a RefCell: forwarded unless mutably borrowed
        let cell = RefCell::new(Probe(0));
        FINS.with(|t| *t.borrow_mut() = [0; MAXP]);
        {
            let _b = cell.borrow_mut();
            cell.finalize();
        }
        if FINS.with(|t| t.borrow()[0]) != 0 {
            v.push(Violation { prop: "C17", pred: "P-visit", msg: "Finalize of a mutably borrowed RefCell reached the contained value".to_string() });
        }
        {
            let _b = cell.borrow();
            cell.finalize();
        }
        if FINS.with(|t| t.borrow()[0]) != 1 {
            v.push(Violation { prop: "C17", pred: "P-visit", msg: "Finalize of a shared-borrowed RefCell was not forwarded exactly once".to_string() });
        }
        s.instances += 2;
    }
    all::<ManuallyDrop<Probe>>("ManuallyDrop", s, v);
    all::<AssertUnwindSafe<Probe>>("AssertUnwindSafe", s, v);
    // types that must report nothing
    judge("PhantomData", (Probe(0), PhantomData::<Probe>, Probe(1)), vec![1, 1], vec![1, 1], s, v, |_, c| c());
    #[cfg(feature = "weak")]
    {
        let target = Cc::new(7u32);
        let w = target.downgrade();
        judge("Weak between probes", (Probe(0), w, Probe(1)), vec![1, 1], vec![1, 1], s, v, |_, c| c());
        judge("Weak::new", (Probe(0), rust_cc::weak::Weak::<u32>::new()), vec![1], vec![1], s, v, |_, c| c());
        // A Weak must not count as an owner: the target (one strong pointer held here) must survive a collection of the holder
        if target.strong_count() != 1 {
            v.push(Violation { prop: "C17", pred: "P-visit", msg: "tracing a Weak changed the strong count of its target".to_string() });
        }
    }
    #[cfg(feature = "cleaners")]
    {
        let cl = rust_cc::cleaners::Cleaner::new();
        let cleanable = cl.register(|| {});
        judge("Cleaner and Cleanable between probes", (Probe(0), cl, cleanable, Probe(1)), vec![1, 1], vec![1, 1], s, v, |_, c| c());
    }
    // two-level nestings: 12 x 12
    nest!(s, v; Box, Option, ResOk, ResErr, RefCell, ManuallyDrop, AssertUnwindSafe, Vec2, Slice3, Arr2, Tup2, Tup3);
    (st, vs)
}
