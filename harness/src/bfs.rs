//! Generic level-synchronous parallel BFS by history replay, for the small engines (policy, mini explorer).
//! A system is a function from a history to (canonical key, enabled successors, violations).

use std::collections::HashSet;
use std::fmt::Debug;
use std::sync::atomic::{AtomicBool, AtomicUsize, Ordering};
use std::sync::Mutex;
use std::time::Instant;

use crate::world::Violation;

pub struct RunOut<O> {
    pub key: u128,
    pub succ: Vec<O>,
    pub violations: Vec<Violation>,
    /// free-form tags counted for the vacuity report
    pub tags: Vec<&'static str>,
}

pub trait Sys: Sync {
    type Op: Copy + Send + Sync + Debug + Ord;
    fn run(&self, hist: &[Self::Op]) -> RunOut<Self::Op>;
    fn thread_init(&self) {}
}

pub struct BfsFound<O> {
    pub history: Vec<O>,
    pub violations: Vec<Violation>,
}

pub struct BfsResult<O> {
    pub states: u64,
    pub transitions: u64,
    pub max_depth_completed: usize,
    pub fixpoint: bool,
    pub cut_reason: Option<String>,
    pub found: Vec<BfsFound<O>>,
    pub samples: Vec<Vec<O>>,
    pub tags: Vec<(&'static str, u64)>,
    pub level_sizes: Vec<u64>,
    pub wall_s: f64,
}

struct Rec<O> {
    parent: u32,
    op: Option<O>,
}

pub fn bfs<S: Sys>(sys: &S, max_depth: usize, max_states: u64, max_seconds: f64, threads: usize) -> BfsResult<S::Op> {
    let t0 = Instant::now();
    let mut arena: Vec<Rec<S::Op>> = vec![Rec { parent: u32::MAX, op: None }];
    let mut seen: HashSet<u128> = HashSet::new();
    sys.thread_init();
    let root = sys.run(&[]);
    let mut res = BfsResult { states: 1, transitions: 0, max_depth_completed: 0, fixpoint: false, cut_reason: None, found: vec![], samples: vec![], tags: vec![], level_sizes: vec![], wall_s: 0.0 };
    if !root.violations.is_empty() {
        res.found.push(BfsFound { history: vec![], violations: root.violations });
        return res;
    }
    seen.insert(root.key);
    let mut frontier: Vec<(u32, Vec<S::Op>)> = vec![(0, root.succ)];
    let mut depth = 0usize;
    let hist_of = |arena: &Vec<Rec<S::Op>>, mut i: u32| -> Vec<S::Op> {
        let mut h = Vec::new();
        while let Some(op) = arena[i as usize].op {
            h.push(op);
            i = arena[i as usize].parent;
        }
        h.reverse();
        h
    };
    let mut tagmap: Vec<(&'static str, u64)> = Vec::new();
    loop {
        if frontier.is_empty() {
            res.fixpoint = true;
            break;
        }
        if max_depth != 0 && depth >= max_depth {
            res.cut_reason = Some(format!("depth bound {} reached with {} unexpanded states", max_depth, frontier.len()));
            break;
        }
        if res.states >= max_states {
            res.cut_reason = Some(format!("state cap {} reached at depth {}", max_states, depth));
            break;
        }
        if t0.elapsed().as_secs_f64() > max_seconds {
            res.cut_reason = Some(format!("time cap {}s reached at depth {}", max_seconds, depth));
            break;
        }
        let next_i = AtomicUsize::new(0);
        let stop = AtomicBool::new(false);
        let found: Mutex<Vec<BfsFound<S::Op>>> = Mutex::new(Vec::new());
        let outs: Vec<Mutex<Vec<(u128, u32, S::Op, Vec<S::Op>)>>> = (0..frontier.len()).map(|_| Mutex::new(Vec::new())).collect();
        let tr = AtomicUsize::new(0);
        let tagacc: Mutex<Vec<(&'static str, u64)>> = Mutex::new(Vec::new());
        std::thread::scope(|sc| {
            for _ in 0..threads.max(1) {
                sc.spawn(|| {
                    sys.thread_init();
                    let mut local_tags: Vec<(&'static str, u64)> = Vec::new();
                    loop {
                        let fi = next_i.fetch_add(1, Ordering::Relaxed);
                        if fi >= frontier.len() || stop.load(Ordering::Relaxed) {
                            break;
                        }
                        let (sidx, ops) = &frontier[fi];
                        let mut h = hist_of(&arena, *sidx);
                        let mut out = Vec::new();
                        for op in ops {
                            h.push(*op);
                            let r = sys.run(&h);
                            tr.fetch_add(1, Ordering::Relaxed);
                            for t in &r.tags {
                                match local_tags.iter_mut().find(|x| x.0 == *t) {
                                    Some(e) => e.1 += 1,
                                    None => local_tags.push((*t, 1)),
                                }
                            }
                            if !r.violations.is_empty() {
                                found.lock().unwrap().push(BfsFound { history: h.clone(), violations: r.violations });
                                stop.store(true, Ordering::Relaxed);
                            } else if !seen.contains(&r.key) {
                                out.push((r.key, *sidx, *op, r.succ));
                            }
                            h.pop();
                        }
                        *outs[fi].lock().unwrap() = out;
                    }
                    let mut g = tagacc.lock().unwrap();
                    for (t, n) in local_tags {
                        match g.iter_mut().find(|x| x.0 == t) {
                            Some(e) => e.1 += n,
                            None => g.push((t, n)),
                        }
                    }
                });
            }
        });
        res.transitions += tr.load(Ordering::Relaxed) as u64;
        for (t, n) in tagacc.into_inner().unwrap() {
            match tagmap.iter_mut().find(|x| x.0 == t) {
                Some(e) => e.1 += n,
                None => tagmap.push((t, n)),
            }
        }
        let mut f = found.into_inner().unwrap();
        if !f.is_empty() {
            f.sort_by(|a, b| (a.history.len(), &a.history).cmp(&(b.history.len(), &b.history)));
            res.found = f;
            res.cut_reason = Some(format!("violation found while expanding depth {}", depth));
            break;
        }
        let mut next = Vec::new();
        for o in outs {
            for (key, parent, op, succ) in o.into_inner().unwrap() {
                if seen.insert(key) {
                    let idx = arena.len() as u32;
                    arena.push(Rec { parent, op: Some(op) });
                    next.push((idx, succ));
                    res.states += 1;
                }
            }
        }
        depth += 1;
        res.max_depth_completed = depth;
        res.level_sizes.push(next.len() as u64);
        frontier = next;
    }
    let total = arena.len();
    for k in 0..4usize {
        if total <= 1 {
            break;
        }
        let idx = (total - 1) - (k * (total / 5 + 1)).min(total - 1);
        if idx > 0 {
            res.samples.push(hist_of(&arena, idx as u32));
        }
    }
    tagmap.sort();
    res.tags = tagmap;
    res.wall_s = t0.elapsed().as_secs_f64();
    res
}
