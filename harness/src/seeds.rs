//! Graph-seeded exploration: families of construction prefixes. A prefix is an ordinary history (New / Dup /
//! Store / Downgrade / StoreWeak / SetFin / SetDrop / Register / Drop) that builds one heap shape; the explorer
//! takes every state so built as an initial state and continues with the lens alphabet. This reaches states
//! (3-object garbage sets with untraced edges, weak cells and scripted members) that lie 12-16 operations away
//! from the empty heap, far beyond what breadth-first search from the empty heap can cover.

use crate::ops::Code::*;
use crate::ops::*;
use crate::world::LensCfg;

fn has_code(cfg: &LensCfg, code: Code) -> bool {
    cfg.seed_codes & (1u64 << code as u8) != 0
}

fn op(c: Code, a: u8, b: u8, cc: u8) -> Op {
    Op::new(c, a, b, cc)
}

/// Family g3: objects #0,#1,#2 (built in v0,v1,v2; v3 is the carrier).
///   c0 of every object in {none, ->0, ->1, ->2}; c1 of #1 in {none, ->0, ->1, ->2}; untraced cell of #0 in {none, ->1, ->2};
///   weak cell of #2 in {none, ->0, ->1} (if the lens has weak cells); with two weak variables also a program-held
///   Weak to #0 or #1; finalizer script of #2 and destructor script of #0
///   from the lens menus; one cleaning action on #0 from the lens menu (if the lens has cleaners);
///   finally all handles but at most one are dropped, in both orders.
pub fn generate(family: &str, cfg: &LensCfg) -> Vec<Vec<Op>> {
    match family {
        "g3" => g3(cfg, false, false),
        "g3s" => g3(cfg, true, false),
        // g3b: the finalizer script, the destructor script and the weak cell all sit on #1 - the object that #0 can
        // own through its *untraced* cell, i.e. the one destroyed by reference counting nested inside the
        // collector's dropping phase when #0 is garbage.
        "g3b" => g3(cfg, false, true),
        "g4n" => g4n(cfg),
        "ga" => ga(cfg),
        other => panic!("unknown seed family {}", other),
    }
}

fn g3(cfg: &LensCfg, small: bool, on_one: bool) -> Vec<Vec<Op>> {
    let (fin_obj, drop_obj, wcell_obj) = if on_one { (1u8, 1u8, 1u8) } else { (2u8, 0u8, 2u8) };
    let wcell_targets: Vec<Option<u8>> = if on_one { vec![None, Some(0u8), Some(2)] } else { vec![None, Some(0u8), Some(1)] };
    assert!(cfg.nvars >= 4 && cfg.nobj >= 3, "seed family g3 needs --v 4 --n 3");
    let weak = has_code(cfg, Downgrade) && has_code(cfg, StoreWeak) && cfg.nw >= 1;
    let fin_menu: Vec<u8> = if has_code(cfg, SetFin) { cfg.fin_menu.clone() } else { vec![0] };
    let drop_menu: Vec<u8> = if has_code(cfg, SetDrop) { cfg.drop_menu.clone() } else { vec![0] };
    let act_menu: Vec<Option<u8>> = if has_code(cfg, Register) && cfg.nc >= 1 { std::iter::once(None).chain(cfg.action_menu.iter().map(|k| Some(*k))).collect() } else { vec![None] };
    let tgt = [None, Some(0u8), Some(1), Some(2)];
    // Scripts that read the global G (try_unwrap / finalize_again / drop of G's content) are vacuous while G is
    // empty: when a menu contains one, every shape is also built with G holding a Cc to #2 (to #0 in g3b).
    let g_scripts = cfg.fin_menu.iter().any(|k| [10u8, 11, 12, 14, 15].contains(k)) || cfg.drop_menu.iter().any(|k| [3u8, 4, 5, 6].contains(k)) || cfg.action_menu.iter().any(|k| [7u8, 8, 9].contains(k));
    let g_opts: Vec<Option<u8>> = if g_scripts { vec![None, Some(if on_one { 0 } else { 2 })] } else { vec![None] };
    let mut out: Vec<Vec<Op>> = Vec::new();
    for c0_0 in tgt {
        for c0_1 in tgt {
            for c0_2 in tgt {
                for c1_1 in if small { vec![None, Some(1u8)] } else { tgt.to_vec() } {
                    for u_0 in [None, Some(1u8), Some(2)] {
                        for w_2 in if weak { wcell_targets.clone() } else { vec![None] } {
                            for fin2 in &fin_menu {
                                for drop0 in &drop_menu {
                                    for act in &act_menu {
                                        if *fin2 == 0 && *drop0 == 0 && act.is_none() && w_2.is_some() {
                                            continue; // a weak cell nobody reads adds nothing
                                        }
                                        let mut base: Vec<Op> = vec![op(New, 0, 0, 0), op(New, 1, 0, 0), op(New, 2, 0, 0)];
                                        let mut edge = |h: &mut Vec<Op>, owner: u8, cell: u8, t: Option<u8>| {
                                            if let Some(t) = t {
                                                h.push(op(Dup, t, 3, 0));
                                                h.push(op(Store, owner, cell, 3));
                                            }
                                        };
                                        edge(&mut base, 0, 0, c0_0);
                                        edge(&mut base, 1, 0, c0_1);
                                        edge(&mut base, 2, 0, c0_2);
                                        edge(&mut base, 1, 1, c1_1);
                                        edge(&mut base, 0, T as u8, u_0);
                                        if let Some(t) = w_2 {
                                            base.push(op(Downgrade, t, 0, 0));
                                            base.push(op(StoreWeak, wcell_obj, 0, 0));
                                        }
                                        if *fin2 != 0 {
                                            base.push(op(SetFin, fin_obj, *fin2, 0));
                                        }
                                        if *drop0 != 0 {
                                            base.push(op(SetDrop, drop_obj, *drop0, 0));
                                        }
                                        if let Some(k) = act {
                                            base.push(op(Register, 0, *k, 0));
                                        }
                                        // (with >= 2 weak variables) a program-held Weak to #0 or #1 in w1
                                        let held_weak: Vec<Option<u8>> = if weak && cfg.nw >= 2 { vec![None, Some(0), Some(1)] } else { vec![None] };
                                        for hw in held_weak {
                                        let mut base = base.clone();
                                        if let Some(t) = hw {
                                            base.push(op(Downgrade, t, 1, 0));
                                        }
                                        for g_of in &g_opts {
                                        let mut base = base.clone();
                                        if let Some(t) = g_of {
                                            base.push(op(Dup, *t, 3, 0));
                                            base.push(op(PutG, 3, 0, 0));
                                        }
                                        // handles: keep none or exactly one, drop the others in both orders
                                        for keep in [None, Some(0u8), Some(1), Some(2)] {
                                            for rev in [false, true] {
                                                let mut h = base.clone();
                                                let mut order: Vec<u8> = (0..3u8).filter(|v| Some(*v) != keep).collect();
                                                if rev {
                                                    order.reverse();
                                                }
                                                for v in order {
                                                    h.push(op(Drop, v, 0, 0));
                                                }
                                                out.push(h);
                                            }
                                        }
                                        }
                                        }
                                    }
                                }
                            }
                        }
                    }
                }
            }
        }
    }
    out
}


/// Family g4n (nested destruction): #0 = A, #1 = B form the garbage (A alone in a self-cycle, or A <-> B); #3 = Child is
/// owned by A or B through the untraced cell or through the second traced cell; #2 = Leaf is owned by Child (cell 0 or the
/// untraced cell). Child and Leaf each carry a finalizer script and a destructor script from the lens menus; Leaf (or
/// Child) may hold a weak cell to A, B or Child. Finally the handles of A and B are dropped, in both orders.
/// Destroying the cycle then destroys Child by reference counting *inside* the collector's dropping phase, and Child's
/// callbacks destroy Leaf one level deeper (a finalizer run by a Cc::drop nested in the drop glue of a garbage object,
/// a destructor nested in that finalizer, ...).
fn g4n(cfg: &LensCfg) -> Vec<Vec<Op>> {
    assert!(cfg.nvars >= 4 && cfg.nobj >= 4, "seed family g4n needs --v 4 --n 4");
    let weak = has_code(cfg, Downgrade) && has_code(cfg, StoreWeak) && cfg.nw >= 1;
    let fin_menu: Vec<u8> = if has_code(cfg, SetFin) { cfg.fin_menu.clone() } else { vec![0] };
    let drop_menu: Vec<u8> = if has_code(cfg, SetDrop) { cfg.drop_menu.clone() } else { vec![0] };
    let g_scripts = cfg.fin_menu.iter().any(|k| [10u8, 11, 12, 14, 15].contains(k)) || cfg.drop_menu.iter().any(|k| [3u8, 4, 5, 6].contains(k));
    let mut out: Vec<Vec<Op>> = Vec::new();
    // weak cell configurations: (holder: 2 = Leaf / 3 = Child, target)
    let mut wconfs: Vec<Option<(u8, u8)>> = vec![None];
    if weak {
        wconfs.extend([Some((2u8, 0u8)), Some((2, 1)), Some((2, 3)), Some((3, 0)), Some((3, 1))]);
    }
    for two in [false, true] {
        for owner in if two { vec![0u8, 1] } else { vec![0u8] } {
            for via in [T as u8, 1u8] {
                for leaf_cell in [0u8, T as u8] {
                    for cfin in &fin_menu {
                        for cdrop in &drop_menu {
                            for lfin in &fin_menu {
                                for ldrop in &drop_menu {
                                    for wc in &wconfs {
                                        if let Some((_, t)) = wc {
                                            if *t == 1 && !two {
                                                continue;
                                            }
                                        }
                                        // an extra self-reference in the second traced cell of A or B keeps that member's count above
                                        // zero while the other members' drop glue runs (the moment the nested callbacks look at it)
                                        for extra in [None, Some(0u8), Some(1u8)] {
                                        if let Some(x) = extra {
                                            if (x == 1 && !two) || (via == 1 && owner == x) {
                                                continue;
                                            }
                                        }
                                        for g_on in if g_scripts { vec![false, true] } else { vec![false] } {
                                            let mut h: Vec<Op> = vec![op(New, 0, 0, 0), op(New, 1, 0, 0)];
                                            if let Some(x) = extra {
                                                h.push(op(Dup, x, 3, 0));
                                                h.push(op(Store, x, 1, 3));
                                            }
                                            if two {
                                                h.push(op(Dup, 1, 3, 0));
                                                h.push(op(Store, 0, 0, 3)); // A.c0 -> B
                                                h.push(op(Dup, 0, 3, 0));
                                                h.push(op(Store, 1, 0, 3)); // B.c0 -> A
                                            } else {
                                                h.push(op(Dup, 0, 3, 0));
                                                h.push(op(Store, 0, 0, 3)); // A.c0 -> A
                                            }
                                            h.push(op(New, 2, 0, 0)); // #2 = Leaf in v2
                                            if let Some((2, t)) = wc {
                                                if *t != 3 {
                                                    h.push(op(Downgrade, *t, 0, 0));
                                                    h.push(op(StoreWeak, 2, 0, 0));
                                                }
                                            }
                                            if *lfin != 0 {
                                                h.push(op(SetFin, 2, *lfin, 0));
                                            }
                                            if *ldrop != 0 {
                                                h.push(op(SetDrop, 2, *ldrop, 0));
                                            }
                                            h.push(op(New, 3, 0, 0)); // #3 = Child in v3
                                            if let Some((2, 3)) = wc {
                                                h.push(op(Downgrade, 3, 0, 0));
                                                h.push(op(StoreWeak, 2, 0, 0));
                                            }
                                            if let Some((3, t)) = wc {
                                                h.push(op(Downgrade, *t, 0, 0));
                                                h.push(op(StoreWeak, 3, 0, 0));
                                            }
                                            if *cfin != 0 {
                                                h.push(op(SetFin, 3, *cfin, 0));
                                            }
                                            if *cdrop != 0 {
                                                h.push(op(SetDrop, 3, *cdrop, 0));
                                            }
                                            h.push(op(Store, 3, leaf_cell, 2)); // Child.cell <- Leaf (moved)
                                            h.push(op(Store, owner, via, 3)); // owner.cell <- Child (moved)
                                            if !two {
                                                // B is not part of the garbage: it stays a live bystander held by v1, or G holds it
                                            }
                                            if g_on {
                                                // a unique Cc in G for the scripts that read it: a fifth object would exceed the
                                                // scope, so G gets a second handle of B when B is a bystander, else nothing
                                                if !two {
                                                    h.push(op(Dup, 1, 3, 0));
                                                    h.push(op(PutG, 3, 0, 0));
                                                } else {
                                                    continue;
                                                }
                                            }
                                            for rev in [false, true] {
                                                let mut hh = h.clone();
                                                if two {
                                                    if rev {
                                                        hh.push(op(Drop, 1, 0, 0));
                                                        hh.push(op(Drop, 0, 0, 0));
                                                    } else {
                                                        hh.push(op(Drop, 0, 0, 0));
                                                        hh.push(op(Drop, 1, 0, 0));
                                                    }
                                                } else {
                                                    if rev {
                                                        continue;
                                                    }
                                                    hh.push(op(Drop, 0, 0, 0));
                                                    if g_on {
                                                        hh.push(op(Drop, 1, 0, 0)); // G keeps the only Cc of B
                                                    }
                                                }
                                                out.push(hh);
                                            }
                                        }
                                        }
                                    }
                                }
                            }
                        }
                    }
                }
            }
        }
    }
    out
}


/// Family ga (automatic collections on): #0 = G is a garbage-to-be self-cycle with a scripted finalizer or destructor;
/// k ballast objects are created, a collection runs while they are alive (which raises the byte threshold above what
/// the scripts will allocate) and they are released again; the buffered-objects threshold is set to 1 or 2 (or left
/// unset); finally G's handle is dropped (or kept).
fn ga(cfg: &LensCfg) -> Vec<Vec<Op>> {
    assert!(cfg.nvars >= 4 && cfg.nobj >= 6, "seed family ga needs --v 4 --n 6 (or more)");
    let mut out: Vec<Vec<Op>> = Vec::new();
    for ballast in 0..=3u8 {
        for thr in [0u8, 1, 2] {
            for fin in &cfg.fin_menu {
                for dr in &cfg.drop_menu {
                    if *fin == 0 && *dr == 0 {
                        continue;
                    }
                    for keep in [false, true] {
                        let mut h: Vec<Op> = vec![op(New, 0, 0, 0), op(Dup, 0, 3, 0), op(Store, 0, 0, 3)];
                        for b in 0..ballast {
                            h.push(op(New, 1 + (b % 3), 0, 0));
                            if b == 2 {
                                // only three free variables: the third ballast object replaces nothing, v3 is free again
                            }
                        }
                        h.push(op(Collect, 0, 0, 0));
                        for b in 0..ballast.min(3) {
                            h.push(op(Drop, 1 + b, 0, 0));
                        }
                        if thr != 0 {
                            h.push(op(SetBufThr, thr, 0, 0));
                        }
                        if *fin != 0 {
                            h.push(op(SetFin, 0, *fin, 0));
                        }
                        if *dr != 0 {
                            h.push(op(SetDrop, 0, *dr, 0));
                        }
                        if !keep {
                            h.push(op(Drop, 0, 0, 0));
                        }
                        out.push(h);
                    }
                }
            }
        }
    }
    out
}
