//! Explicit-state breadth-first exploration of the real crate by history replay.

use std::collections::HashSet;
use std::hash::{BuildHasherDefault, Hasher};
use std::sync::atomic::{AtomicBool, AtomicUsize, Ordering};
use std::sync::Mutex;
use std::time::Instant;

use rust_cc::verif_hooks as hk;

use crate::alloc;
use crate::crash;
use crate::ops::*;
use crate::world::{self, Ctx, LensCfg, Stats, Summary, Violation};

#[derive(Default)]
pub struct IdHasher(u64);
impl Hasher for IdHasher {
    fn finish(&self) -> u64 {
        self.0
    }
    fn write(&mut self, bytes: &[u8]) {
        for b in bytes {
            self.0 = (self.0 << 8) | *b as u64;
        }
    }
    fn write_u128(&mut self, i: u128) {
        self.0 = (i as u64) ^ ((i >> 64) as u64).rotate_left(17);
    }
}
type Seen = HashSet<u128, BuildHasherDefault<IdHasher>>;

#[derive(Clone, Debug, Default)]
pub struct ExecResult {
    pub key: u128,
    pub summary: Summary,
    pub crash_points: u16,
    pub violations: Vec<Violation>,
    pub epilogue: Vec<Op>,
    pub stats: Stats,
    pub faulted_last: bool,
    pub buffer_nonempty: bool,
    pub key_bytes: Option<Vec<u8>>,
}

pub fn warm_up_thread() {
    alloc::init_thread();
    let _ = std::thread::current();
    rust_cc::collect_cycles();
    let _ = rust_cc::state::allocated_bytes();
    #[cfg(feature = "auto")]
    let _ = rust_cc::config::config(|_| ());
    let _ = std::panic::catch_unwind(|| std::panic::panic_any("warm-up"));
    // (No Cc is created here: whatever the tree under test does wrong must happen inside an execution,
    // where the oracles and the crash isolation can see it.)
    let _ = rust_cc::state::buffered_objects_count();
    hk::reset_thread_state();
}

/// Replays `h` on the real crate (fresh collector state), returns the canonical key of the state reached,
/// and optionally runs the epilogue probe on it.
pub fn run_history(cfg: &LensCfg, h: &[Op], with_epilogue: bool, keep_key_bytes: bool) -> ExecResult {
    hk::reset_thread_state();
    hk::set_alloc_observer(Some(world::alloc_observer));
    #[cfg(feature = "auto")]
    {
        let auto = cfg.auto_lens;
        let _ = rust_cc::config::config(|c| c.set_auto_collect(auto));
    }
    alloc::begin();
    let ctxp: *mut Ctx = Box::into_raw(Box::new(Ctx::new(cfg.clone())));
    world::install_ctx(ctxp);
    let c = world::ctx();
    c.model.borrow_mut().auto = cfg.auto_lens && cfg!(feature = "auto");
    let mut res = ExecResult::default();
    // A panic escaping here was raised while an oracle (not an operation) was calling into the crate
    let body = std::panic::catch_unwind(std::panic::AssertUnwindSafe(|| {
        let mut res = ExecResult::default();
        let mut bad = false;
        for op in h {
            let out = world::step(*op);
            res.crash_points = out.crash_points;
            res.faulted_last = out.faulted;
            if !c.violations.borrow().is_empty() {
                bad = true;
                break;
            }
        }
        if !bad {
            let mut kb: Vec<u8> = Vec::with_capacity(256);
            world::canonical_key(&mut kb);
            res.key = world::hash128(&kb);
            res.summary = world::summary();
            res.buffer_nonempty = res.summary.buffered > 0;
            if keep_key_bytes {
                let _p = alloc::pause();
                res.key_bytes = Some(kb.clone());
            }
            if with_epilogue && cfg.epilogue {
                let done = world::epilogue();
                if !c.violations.borrow().is_empty() {
                    let _p = alloc::pause();
                    res.epilogue = done.clone();
                }
            }
        }
        res
    }));
    match body {
        Ok(r) => res = r,
        Err(p) => {
            let _p = alloc::pause();
            let msg = p.downcast_ref::<&'static str>().map(|s| s.to_string()).or_else(|| p.downcast_ref::<String>().cloned()).unwrap_or_else(|| "<non-string payload>".to_string());
            world::unwind_fix_stack(0);
            world::viol("ANY", "P-nopanic", format!("panic while an oracle was observing the state through the public API: {}", msg));
            std::mem::forget(p);
        },
    }
    {
        let _p = alloc::pause();
        res.violations = c.violations.borrow().iter().cloned().collect();
        res.stats = *c.stats.borrow();
    }
    world::install_ctx(std::ptr::null());
    hk::set_alloc_observer(None);
    // The collector must forget the (abandoned) heap before its memory is released in bulk
    hk::reset_thread_state();
    alloc::end();
    res
}

#[derive(Clone, Copy)]
struct StateRec {
    parent: u32,
    op: Op,
    /// For root states (parent == u32::MAX): index of the construction prefix that builds it
    root: u32,
}

pub struct Found {
    pub history: Vec<Op>,
    pub epilogue: Vec<Op>,
    pub violations: Vec<Violation>,
}

#[derive(Default)]
pub struct ExploreResult {
    pub states: u64,
    pub transitions: u64,
    pub executions: u64,
    pub fault_transitions: u64,
    pub max_depth_completed: usize,
    pub fixpoint: bool,
    pub cut_reason: Option<String>,
    pub found: Vec<Found>,
    pub stats: Stats,
    pub states_with_buffer: u64,
    /// states by number of buffered objects (index 5 = five or more)
    pub buffered_hist: [u64; 6],
    pub double_replays: u64,
    pub fresh_thread_checks: u64,
    pub level_sizes: Vec<u64>,
    pub samples: Vec<Vec<Op>>,
    pub wall_s: f64,
    pub machinery_errors: Vec<String>,
    /// Violations of properties other than the focus: (property, count, one sample)
    pub pruned_other: Vec<(String, u64, Found)>,
    pub seed_prefixes: u64,
    pub seed_states: u64,
}

pub struct Limits {
    pub max_depth: usize, // 0 = until fixpoint
    pub max_states: u64,
    pub max_seconds: f64,
    pub threads: usize,
    pub seed: u64,
    pub fresh_thread_depth: usize,
    /// Property whose violations stop the search; violations of other properties only prune the state
    pub focus: Option<String>,
    /// Start the search from every state built by a family of construction prefixes instead of the empty heap
    pub seed_family: Option<String>,
}

fn add_stats(a: &mut Stats, b: &Stats) {
    a.reclaimed_by_collector += b.reclaimed_by_collector;
    a.reclaimed_by_rc += b.reclaimed_by_rc;
    a.resurrections += b.resurrections;
    a.upgrades_some += b.upgrades_some;
    a.upgrades_none += b.upgrades_none;
    a.unwrap_ok += b.unwrap_ok;
    a.unwrap_err += b.unwrap_err;
    a.faults_fired += b.faults_fired;
    a.nested_collect_noop += b.nested_collect_noop;
    a.nested_collect_real += b.nested_collect_real;
    a.actions_run += b.actions_run;
    a.auto_collections += b.auto_collections;
}

#[derive(Default)]
struct Agg {
    stats: Stats,
    executions: u64,
    transitions: u64,
    fault_transitions: u64,
    double_replays: u64,
}

struct Candidate {
    key: u128,
    parent: u32,
    op: Op,
    summary: Summary,
    buffer_nonempty: bool,
}

pub fn explore(cfg: &LensCfg, lim: &Limits) -> ExploreResult {
    let t0 = Instant::now();
    let mut res = ExploreResult::default();
    let mut arena: Vec<StateRec> = Vec::new();
    let mut seen: Seen = Seen::default();

    warm_up_thread();
    let root = run_history(cfg, &[], true, false);
    if !root.violations.is_empty() {
        res.found.push(Found { history: vec![], epilogue: root.epilogue, violations: root.violations });
        return res;
    }
    seen.insert(root.key);
    let mut roots: Vec<Vec<Op>> = vec![vec![]];
    arena.push(StateRec { parent: u32::MAX, op: Op::new(Code::Collect, 0, 0, 0), root: 0 });
    let mut frontier: Vec<(u32, Summary)> = vec![(0, root.summary)];
    res.states = 1;
    let mut depth = 0usize;

    // Graph-seeded exploration: every state built by the family's construction prefixes is an initial state
    if let Some(fam) = &lim.seed_family {
        let prefixes = crate::seeds::generate(fam, cfg);
        res.seed_prefixes = prefixes.len() as u64;
        let next = AtomicUsize::new(0);
        let outs: Mutex<Vec<(usize, ExecResult)>> = Mutex::new(Vec::new());
        std::thread::scope(|sc| {
            for wid in 0..lim.threads.max(1) {
                let prefixes = &prefixes;
                let next = &next;
                let outs = &outs;
                sc.spawn(move || {
                    warm_up_thread();
                    let mut local: Vec<(usize, ExecResult)> = Vec::new();
                    loop {
                        let i = next.fetch_add(1, Ordering::Relaxed);
                        if i >= prefixes.len() {
                            break;
                        }
                        crash::set_inflight(wid, &prefixes[i]);
                        let r = run_history(cfg, &prefixes[i], true, false);
                        local.push((i, r));
                    }
                    crash::clear_inflight(wid);
                    outs.lock().unwrap().extend(local);
                });
            }
        });
        let mut outs = outs.into_inner().unwrap();
        outs.sort_by_key(|x| x.0);
        for (i, r) in outs {
            res.executions += 1;
            res.transitions += 1;
            add_stats(&mut res.stats, &r.stats);
            if !r.violations.is_empty() {
                let relevant = match &lim.focus {
                    None => true,
                    Some(f) => r.violations.iter().any(|v| v.prop == f.as_str() || v.prop == "ANY" || v.prop == "MACHINERY" || (f == "C07" && v.msg.starts_with(world::AFTER_FAULT_PREFIX))),
                };
                if relevant {
                    res.found.push(Found { history: prefixes[i].clone(), epilogue: r.epilogue, violations: r.violations });
                }
                continue;
            }
            if seen.insert(r.key) {
                let ri = roots.len() as u32;
                roots.push(prefixes[i].clone());
                let idx = arena.len() as u32;
                arena.push(StateRec { parent: u32::MAX, op: Op::new(Code::Collect, 0, 0, 0), root: ri });
                frontier.push((idx, r.summary));
                res.states += 1;
            }
        }
        res.seed_states = frontier.len() as u64;
        if !res.found.is_empty() {
            res.found.sort_by(|a, b| (a.history.len() + a.epilogue.len(), &a.history).cmp(&(b.history.len() + b.epilogue.len(), &b.history)));
            res.cut_reason = Some("violation found while building the seed family".to_string());
            res.wall_s = t0.elapsed().as_secs_f64();
            return res;
        }
    }

    let roots_ref = &roots;
    let history_of = move |arena: &Vec<StateRec>, mut idx: u32, out: &mut Vec<Op>| {
        out.clear();
        while arena[idx as usize].parent != u32::MAX {
            out.push(arena[idx as usize].op);
            idx = arena[idx as usize].parent;
        }
        out.reverse();
        let prefix = &roots_ref[arena[idx as usize].root as usize];
        if !prefix.is_empty() {
            out.splice(0..0, prefix.iter().copied());
        }
    };

    loop {
        if frontier.is_empty() {
            res.fixpoint = true;
            break;
        }
        if lim.max_depth != 0 && depth >= lim.max_depth {
            res.cut_reason = Some(format!("depth bound {} reached with {} unexpanded states", lim.max_depth, frontier.len()));
            break;
        }
        if res.states >= lim.max_states {
            res.cut_reason = Some(format!("state cap {} reached at depth {}", lim.max_states, depth));
            break;
        }
        if t0.elapsed().as_secs_f64() > lim.max_seconds {
            res.cut_reason = Some(format!("time cap {}s reached at depth {}", lim.max_seconds, depth));
            break;
        }
        // Expand the level in parallel
        let next_item = AtomicUsize::new(0);
        let stop = AtomicBool::new(false);
        let timed_out = AtomicBool::new(false);
        // Memory guard: the candidates of one level are kept until the level is merged; their total size is capped
        // (a level that hits the cap is reported as not completed, exactly like a level that hits the time cap)
        let mem_out = AtomicBool::new(false);
        let cand_count = AtomicUsize::new(0);
        let cand_cap: usize = std::env::var("CCMC_MAX_LEVEL_BYTES").ok().and_then(|v| v.parse::<usize>().ok()).unwrap_or(16usize << 30) / std::mem::size_of::<Candidate>().max(1);
        let found: Mutex<Vec<Found>> = Mutex::new(Vec::new());
        let pruned: Mutex<Vec<(String, u64, Found)>> = Mutex::new(Vec::new());
        let machinery: Mutex<Vec<String>> = Mutex::new(Vec::new());
        let nthreads = lim.threads.max(1);
        const CHUNK: usize = 32;
        let nchunks = (frontier.len() + CHUNK - 1) / CHUNK;
        let chunk_out: Vec<Mutex<Vec<Candidate>>> = (0..nchunks).map(|_| Mutex::new(Vec::new())).collect();
        let aggs: Vec<Agg> = std::thread::scope(|sc| {
            let handles: Vec<_> = (0..nthreads)
                .map(|wid| {
                    let frontier = &frontier;
                    let arena = &arena;
                    let seen = &seen;
                    let next_item = &next_item;
                    let stop = &stop;
                    let timed_out = &timed_out;
                    let mem_out = &mem_out;
                    let cand_count = &cand_count;
                    let found = &found;
                    let pruned = &pruned;
                    let machinery = &machinery;
                    let chunk_out = &chunk_out;
                    sc.spawn(move || {
                        warm_up_thread();
                        crash::set_worker(wid);
                        let mut agg = Agg::default();
                        let mut hist: Vec<Op> = Vec::new();
                        let mut ops: Vec<Op> = Vec::new();
                        let mut execs_since_check = 0u64;
                        loop {
                            let ci = next_item.fetch_add(1, Ordering::Relaxed);
                            if ci >= nchunks || stop.load(Ordering::Relaxed) {
                                break;
                            }
                            let mut out: Vec<Candidate> = Vec::new();
                            for fi in (ci * CHUNK)..((ci + 1) * CHUNK).min(frontier.len()) {
                                let (sidx, summ) = &frontier[fi];
                                history_of(arena, *sidx, &mut hist);
                                world::enabled(summ, cfg, &mut ops);
                                if lim.seed != 0 {
                                    // The seed only permutes the expansion order (results must not depend on it)
                                    let n = ops.len();
                                    if n > 1 {
                                        let r = (lim.seed as usize).wrapping_mul(0x9E37_79B9).wrapping_add(fi) % n;
                                        ops.rotate_left(r);
                                    }
                                }
                                let base_len = hist.len();
                                for op in ops.iter() {
                                    hist.truncate(base_len);
                                    hist.push(*op);
                                    let mut variants: Vec<Op> = vec![*op];
                                    let mut vi = 0;
                                    while vi < variants.len() {
                                        let vop = variants[vi];
                                        vi += 1;
                                        *hist.last_mut().unwrap() = vop;
                                        crash::set_inflight(wid, &hist);
                                        let r = run_history(cfg, &hist, true, false);
                                        agg.executions += 1;
                                        agg.transitions += 1;
                                        if vop.fault != NO_FAULT {
                                            agg.fault_transitions += 1;
                                        }
                                        add_stats(&mut agg.stats, &r.stats);
                                        execs_since_check += 1;
                                        if !r.violations.is_empty() {
                                            if r.violations.iter().any(|v| v.prop == "MACHINERY") {
                                                machinery.lock().unwrap().push(format!("{:?}: {:?}", fmt_history(&hist), r.violations));
                                            }
                                            let relevant = match &lim.focus {
                                                None => true,
                                                Some(f) => r.violations.iter().any(|v| v.prop == f.as_str() || v.prop == "ANY" || v.prop == "MACHINERY" || (f == "C07" && v.msg.starts_with(world::AFTER_FAULT_PREFIX))),
                                            };
                                            let fnd = Found { history: hist.clone(), epilogue: r.epilogue.clone(), violations: r.violations.clone() };
                                            if relevant {
                                                found.lock().unwrap().push(fnd);
                                            } else {
                                                let mut po = pruned.lock().unwrap();
                                                let prop = r.violations[0].prop.to_string();
                                                match po.iter_mut().find(|x| x.0 == prop) {
                                                    Some(e) => {
                                                        e.1 += 1;
                                                        if (fnd.history.len(), &fnd.history) < (e.2.history.len(), &e.2.history) {
                                                            e.2 = fnd;
                                                        }
                                                    },
                                                    None => po.push((prop, 1, fnd)),
                                                }
                                            }
                                            continue;
                                        }
                                        // Determinism guard: replay every 1024th execution a second time
                                        if execs_since_check >= 1024 {
                                            execs_since_check = 0;
                                            let r2 = run_history(cfg, &hist, true, false);
                                            agg.double_replays += 1;
                                            if r2.key != r.key || !r2.violations.is_empty() {
                                                machinery.lock().unwrap().push(format!("non-deterministic replay of {}", fmt_history(&hist)));
                                            }
                                        }
                                        // Fault forking: one successor per crash point of the fault-free execution
                                        if vop.fault == NO_FAULT && (summ.faults as u32) < cfg.max_faults && r.crash_points > 0 {
                                            for k in 0..r.crash_points {
                                                variants.push(op.with_fault(k));
                                            }
                                        }
                                        if !seen.contains(&r.key) {
                                            out.push(Candidate { key: r.key, parent: *sidx, op: vop, summary: r.summary, buffer_nonempty: r.buffer_nonempty });
                                        }
                                    }
                                }
                            }
                            // duplicates inside one chunk are dropped right away (first occurrence in work order wins)
                            {
                                let mut local: HashSet<u128, BuildHasherDefault<IdHasher>> = HashSet::default();
                                out.retain(|cd| local.insert(cd.key));
                            }
                            if cand_count.fetch_add(out.len(), Ordering::Relaxed) + out.len() > cand_cap {
                                mem_out.store(true, Ordering::Relaxed);
                                stop.store(true, Ordering::Relaxed);
                            }
                            *chunk_out[ci].lock().unwrap() = out;
                            if t0.elapsed().as_secs_f64() > lim.max_seconds * 1.5 + 30.0 {
                                timed_out.store(true, Ordering::Relaxed);
                                stop.store(true, Ordering::Relaxed);
                            }
                            if !found.lock().unwrap().is_empty() {
                                stop.store(true, Ordering::Relaxed);
                            }
                        }
                        crash::clear_inflight(wid);
                        agg
                    })
                })
                .collect();
            handles.into_iter().map(|h| h.join().expect("worker panicked")).collect()
        });
        for a in &aggs {
            add_stats(&mut res.stats, &a.stats);
            res.executions += a.executions;
            res.transitions += a.transitions;
            res.fault_transitions += a.fault_transitions;
            res.double_replays += a.double_replays;
        }
        res.machinery_errors.extend(machinery.into_inner().unwrap());
        for (prop, n, f) in pruned.into_inner().unwrap() {
            match res.pruned_other.iter_mut().find(|x| x.0 == prop) {
                Some(e) => e.1 += n,
                None => res.pruned_other.push((prop, n, f)),
            }
        }
        let mut f = found.into_inner().unwrap();
        if !f.is_empty() {
            // Deterministic choice: shortest, then lexicographically smallest history
            f.sort_by(|a, b| (a.history.len() + a.epilogue.len(), &a.history).cmp(&(b.history.len() + b.epilogue.len(), &b.history)));
            res.found = f;
            res.cut_reason = Some(format!("violation found while expanding depth {}", depth));
            break;
        }
        if timed_out.load(Ordering::Relaxed) {
            res.cut_reason = Some(format!("time cap reached while expanding depth {} (level not completed)", depth));
            break;
        }
        if mem_out.load(Ordering::Relaxed) {
            res.cut_reason = Some(format!("memory cap reached while expanding depth {} (level not completed)", depth));
            break;
        }
        // Merge in work order (deterministic)
        let mut next: Vec<(u32, Summary)> = Vec::new();
        for co in chunk_out {
            for cand in co.into_inner().unwrap() {
                if seen.insert(cand.key) {
                    let idx = arena.len() as u32;
                    arena.push(StateRec { parent: cand.parent, op: cand.op, root: 0 });
                    res.buffered_hist[(cand.summary.buffered as usize).min(5)] += 1;
                    next.push((idx, cand.summary));
                    res.states += 1;
                    if cand.buffer_nonempty {
                        res.states_with_buffer += 1;
                    }
                }
            }
        }
        depth += 1;
        res.max_depth_completed = depth;
        res.level_sizes.push(next.len() as u64);
        if std::env::var("CCMC_PROGRESS").is_ok() {
            eprintln!("depth {:3} new {:9} states {:10} transitions {:11} t={:.1}s", depth, next.len(), res.states, res.transitions, t0.elapsed().as_secs_f64());
        }
        frontier = next;
    }

    // Samples: a few of the deepest histories
    let mut h = Vec::new();
    let total = arena.len();
    for k in 0..5usize {
        if total <= 1 {
            break;
        }
        let idx = (total - 1) - (k * (total / 7 + 1)).min(total - 1);
        if idx == 0 {
            continue;
        }
        history_of(&arena, idx as u32, &mut h);
        res.samples.push(h.clone());
    }

    // Conformance: reset hook == fresh thread, on all states up to a small depth
    if res.found.is_empty() && lim.fresh_thread_depth > 0 {
        let mut checked = 0u64;
        let mut depth_of: Vec<u8> = vec![0; arena.len()];
        for i in 1..arena.len() {
            depth_of[i] = depth_of[arena[i].parent as usize].saturating_add(1);
        }
        let mut idxs: Vec<usize> = (1..arena.len()).filter(|i| depth_of[*i] as usize <= lim.fresh_thread_depth).collect();
        idxs.truncate(400);
        for i in idxs {
            history_of(&arena, i as u32, &mut h);
            let hh = h.clone();
            let cfg2 = cfg.clone();
            let fresh = std::thread::spawn(move || {
                alloc::init_thread();
                let _ = std::panic::catch_unwind(|| std::panic::panic_any("warm-up"));
                // No reset hook effect needed on a fresh thread, but run_history calls it anyway: it is a no-op on pristine state
                let r = run_history(&cfg2, &hh, false, false);
                (r.key, r.violations.len())
            })
            .join()
            .expect("fresh thread");
            let again = run_history(cfg, &h, false, false);
            checked += 1;
            if fresh.0 != again.key || fresh.1 != 0 {
                res.machinery_errors.push(format!("reset != fresh thread for {}", fmt_history(&h)));
            }
        }
        res.fresh_thread_checks = checked;
    }
    res.wall_s = t0.elapsed().as_secs_f64();
    res
}
