//! C06 (termination / 10-pass cap): deep-chain family, enumerated exhaustively over (length n, pops per
//! finalizer k, behaviour). Finalizers keep releasing (pop handles from a global stack, cut links) or creating
//! objects; every collect_cycles() must return within the callback budget, run at most 10 tracing passes, and
//! repeated calls must drain everything with every item finalized once and dropped once.

use std::cell::{Cell, RefCell};

use rust_cc::{collect_cycles, state, Cc, Context, Finalize, Trace};

use crate::world::Violation;

thread_local! {
    static STACK: RefCell<Vec<Cc<Item>>> = const { RefCell::new(Vec::new()) };
    static FINS: RefCell<Vec<u32>> = const { RefCell::new(Vec::new()) };
    static DROPS: RefCell<Vec<u32>> = const { RefCell::new(Vec::new()) };
    static EPISODES: Cell<u32> = const { Cell::new(0) };
    static LAST_TRACE: Cell<bool> = const { Cell::new(false) };
    static CALLBACKS: Cell<u64> = const { Cell::new(0) };
    static CREATED: Cell<usize> = const { Cell::new(0) };
    static BUDGET: Cell<usize> = const { Cell::new(0) };
    static BAD_PHASE: Cell<u32> = const { Cell::new(0) };
}

#[derive(Clone, Copy, PartialEq, Eq, Debug)]
pub enum Mode {
    /// finalizer pops k handles from the global stack (each popped item becomes buffered garbage)
    Pop,
    /// finalizer creates k new garbage self-cycles (created while finalizing => already finalized)
    Create,
    /// finalizer cuts its `next` link (the tail becomes garbage during the finalization pass)
    Cut,
}

struct Item {
    id: usize,
    k: usize,
    mode: Mode,
    me: RefCell<Option<Cc<Item>>>,
    next: RefCell<Option<Cc<Item>>>,
}

fn tick() -> bool {
    let n = CALLBACKS.with(|c| {
        c.set(c.get() + 1);
        c.get()
    });
    n < 2_000_000
}

unsafe impl Trace for Item {
    fn trace(&self, ctx: &mut Context<'_>) {
        if !tick() {
            return;
        }
        if !LAST_TRACE.with(|l| l.replace(true)) {
            EPISODES.with(|e| e.set(e.get() + 1));
        }
        if !matches!(state::is_tracing(), Ok(true)) {
            BAD_PHASE.with(|b| b.set(b.get() + 1));
        }
        self.me.trace(ctx);
        self.next.trace(ctx);
    }
}

fn new_item(k: usize, mode: Mode) -> Cc<Item> {
    let id = CREATED.with(|c| {
        let v = c.get();
        c.set(v + 1);
        v
    });
    FINS.with(|f| f.borrow_mut().push(0));
    DROPS.with(|f| f.borrow_mut().push(0));
    let it = Cc::new(Item { id, k, mode, me: RefCell::new(None), next: RefCell::new(None) });
    *it.me.borrow_mut() = Some(it.clone());
    it
}

impl Finalize for Item {
    fn finalize(&self) {
        LAST_TRACE.with(|l| l.set(false));
        if !tick() {
            return;
        }
        FINS.with(|f| f.borrow_mut()[self.id] += 1);
        match self.mode {
            Mode::Pop => {
                for _ in 0..self.k {
                    let popped = STACK.with(|s| s.borrow_mut().pop());
                    drop(popped);
                }
            },
            Mode::Create => {
                for _ in 0..self.k {
                    if BUDGET.with(|b| b.get()) == 0 {
                        break;
                    }
                    BUDGET.with(|b| b.set(b.get() - 1));
                    let it = new_item(self.k, Mode::Create);
                    drop(it);
                }
            },
            Mode::Cut => {
                let n = self.next.borrow_mut().take();
                drop(n);
            },
        }
    }
}

impl Drop for Item {
    fn drop(&mut self) {
        LAST_TRACE.with(|l| l.set(false));
        DROPS.with(|f| f.borrow_mut()[self.id] += 1);
    }
}

pub struct ChainStats {
    pub cases: u64,
    pub collects: u64,
    pub max_episodes: u32,
    pub callbacks: u64,
    pub samples: Vec<String>,
    pub distinct: std::collections::HashSet<(u32, u64)>,
}

fn reset() {
    STACK.with(|s| {
        let v = std::mem::take(&mut *s.borrow_mut());
        std::mem::forget(v);
    });
    FINS.with(|f| f.borrow_mut().clear());
    DROPS.with(|f| f.borrow_mut().clear());
    CREATED.with(|c| c.set(0));
    CALLBACKS.with(|c| c.set(0));
    BAD_PHASE.with(|c| c.set(0));
    rust_cc::verif_hooks::reset_thread_state();
    #[cfg(feature = "auto")]
    let _ = rust_cc::config::config(|c| c.set_auto_collect(false));
}

fn case(n: usize, k: usize, mode: Mode, st: &mut ChainStats, vs: &mut Vec<Violation>) {
    reset();
    st.cases += 1;
    let label = format!("{:?} n={} k={}", mode, n, k);
    match mode {
        Mode::Pop => {
            for _ in 0..n {
                let it = new_item(k, Mode::Pop);
                STACK.with(|s| s.borrow_mut().push(it));
            }
            // release the first one: it becomes buffered garbage
            let first = STACK.with(|s| s.borrow_mut().pop());
            drop(first);
        },
        Mode::Create => {
            BUDGET.with(|b| b.set(n));
            let it = new_item(k, Mode::Create);
            drop(it);
        },
        Mode::Cut => {
            // chain i -> i+1, every item also in a self cycle; only the head is released
            let items: Vec<Cc<Item>> = (0..n).map(|_| new_item(k, Mode::Cut)).collect();
            for i in 0..n.saturating_sub(1) {
                *items[i].next.borrow_mut() = Some(items[i + 1].clone());
            }
            drop(items);
        },
    }
    let bound = 4 * n + 8;
    let mut calls = 0usize;
    loop {
        EPISODES.with(|e| e.set(0));
        LAST_TRACE.with(|l| l.set(false));
        let before = (FINS.with(|f| f.borrow().iter().sum::<u32>()), DROPS.with(|f| f.borrow().iter().sum::<u32>()));
        let ec = state::executions_count().unwrap_or(0);
        collect_cycles();
        calls += 1;
        st.collects += 1;
        let ep = EPISODES.with(|e| e.get());
        st.max_episodes = st.max_episodes.max(ep);
        if state::executions_count().unwrap_or(0) != ec + 1 {
            vs.push(Violation { prop: "C06", pred: "P-res", msg: format!("{}: collect_cycles() did not count exactly one collection", label) });
        }
        if ep > 10 {
            vs.push(Violation { prop: "C06", pred: "P-res", msg: format!("{}: one collect_cycles() call ran {} tracing passes (cap is 10)", label, ep) });
        }
        if CALLBACKS.with(|c| c.get()) >= 2_000_000 {
            vs.push(Violation { prop: "C06", pred: "P-res", msg: format!("{}: callback budget exceeded, the collection does not terminate", label) });
            break;
        }
        let after = (FINS.with(|f| f.borrow().iter().sum::<u32>()), DROPS.with(|f| f.borrow().iter().sum::<u32>()));
        if after == before {
            break;
        }
        if calls > bound {
            vs.push(Violation { prop: "C06", pred: "P-res", msg: format!("{}: still finalizing/dropping after {} collect_cycles() calls", label, calls) });
            break;
        }
        if !vs.is_empty() {
            break;
        }
    }
    st.callbacks += CALLBACKS.with(|c| c.get());
    st.distinct.insert((st.max_episodes, calls as u64));
    if BAD_PHASE.with(|b| b.get()) > 0 {
        vs.push(Violation { prop: "C12", pred: "P-phase", msg: format!("{}: is_tracing() was false inside trace", label) });
    }
    // everything created must be gone: finalized once (unless created inside a finalizer) and dropped once
    let created = CREATED.with(|c| c.get());
    let stack_left = STACK.with(|s| s.borrow().len());
    let fins = FINS.with(|f| f.borrow().clone());
    let drops = DROPS.with(|f| f.borrow().clone());
    for i in 0..created {
        let in_fin_created = mode == Mode::Create && i > 0;
        let want_fin = if in_fin_created { 0 } else { 1 };
        if drops[i] != 1 && stack_left == 0 {
            vs.push(Violation { prop: "C06", pred: "P-res", msg: format!("{}: item {} dropped {} time(s) after the heap was drained", label, i, drops[i]) });
            break;
        }
        if drops[i] == 1 && fins[i] != want_fin {
            vs.push(Violation { prop: "C06", pred: "P-res", msg: format!("{}: item {} finalized {} time(s), expected {}", label, i, fins[i], want_fin) });
            break;
        }
    }
    if stack_left != 0 && mode == Mode::Pop {
        vs.push(Violation { prop: "C06", pred: "P-res", msg: format!("{}: {} handles left on the stack although collections went quiescent", label, stack_left) });
    }
    if state::allocated_bytes().unwrap_or(1) != 0 && stack_left == 0 {
        vs.push(Violation { prop: "C02", pred: "P-complete", msg: format!("{}: allocated_bytes() = {:?} after everything was reclaimed", label, state::allocated_bytes()) });
    }
    if st.samples.len() < 6 && st.cases % 19 == 1 {
        st.samples.push(format!("{}: {} collect_cycles() calls, at most {} tracing passes per call", label, calls, st.max_episodes));
    }
}

pub fn run(max_n: usize) -> (ChainStats, Vec<Violation>) {
    let mut st = ChainStats { cases: 0, collects: 0, max_episodes: 0, callbacks: 0, samples: vec![], distinct: Default::default() };
    let mut vs = Vec::new();
    for mode in [Mode::Pop, Mode::Create, Mode::Cut] {
        for n in 1..=max_n {
            for k in 1..=3 {
                case(n, k, mode, &mut st, &mut vs);
                if !vs.is_empty() {
                    return (st, vs);
                }
            }
        }
    }
    reset();
    (st, vs)
}

// ------------------------------------------------------------------------------------------------
// C04 (recursive release by reference counting): chains of solely-owned objects, enumerated over
// (length n, link kind, buffering pattern, earlier collection or not). Dropping the head must finalize, drop and
// release the whole chain before that drop returns - however long the chain, whichever members are buffered,
// whatever an earlier collection saw - without any collect_cycles() call.
// ------------------------------------------------------------------------------------------------

thread_local! {
    static RC_LOG: RefCell<Vec<(u32, u32, bool)>> = const { RefCell::new(Vec::new()) }; // (finalize calls, drop calls, finalized before drop)
}

struct RcItem {
    id: usize,
    next: RefCell<Option<Cc<RcItem>>>,
    unext: RefCell<Option<Cc<RcItem>>>,
}

unsafe impl Trace for RcItem {
    fn trace(&self, ctx: &mut Context<'_>) {
        self.next.trace(ctx);
        // `unext` is deliberately not traced (an owner may do that)
    }
}

impl Finalize for RcItem {
    fn finalize(&self) {
        RC_LOG.with(|l| l.borrow_mut()[self.id].0 += 1);
    }
}

impl Drop for RcItem {
    fn drop(&mut self) {
        RC_LOG.with(|l| {
            let mut l = l.borrow_mut();
            l[self.id].1 += 1;
            l[self.id].2 = l[self.id].0 > 0;
        });
    }
}

fn rc_case(n: usize, kind: u8, pattern: u8, pre_collect: bool, st: &mut ChainStats, vs: &mut Vec<Violation>) {
    reset();
    st.cases += 1;
    RC_LOG.with(|l| {
        let mut l = l.borrow_mut();
        l.clear();
        l.resize(n, (0, 0, false));
    });
    let label = format!("rc-chain n={} links={} buffered={} earlier-collection={}", n, ["traced", "untraced", "alternating"][kind as usize], ["none", "all", "every other", "last only", "middle only"][pattern as usize], pre_collect);
    // build tail first so that every node is owned by its predecessor only
    let mut head: Option<Cc<RcItem>> = None;
    for id in (0..n).rev() {
        let it = Cc::new(RcItem { id, next: RefCell::new(None), unext: RefCell::new(None) });
        let untraced = match kind {
            0 => false,
            1 => true,
            _ => id % 2 == 1,
        };
        if untraced {
            *it.unext.borrow_mut() = head.take();
        } else {
            *it.next.borrow_mut() = head.take();
        }
        let buffer_it = match pattern {
            0 => false,
            1 => true,
            2 => id % 2 == 0,
            3 => id == n - 1,
            _ => id == n / 2,
        };
        if buffer_it {
            drop(it.clone()); // one of two Ccs dropped: the object is now buffered, its count is 1 again
        }
        head = Some(it);
    }
    if pre_collect {
        collect_cycles();
        st.collects += 1;
        let (f, d) = RC_LOG.with(|l| l.borrow().iter().fold((0, 0), |a, x| (a.0 + x.0, a.1 + x.1)));
        if f != 0 || d != 0 {
            vs.push(Violation { prop: "C01", pred: "P-live", msg: format!("{}: a collection finalized/dropped members of a chain whose head is held", label) });
            std::mem::forget(head);
            return;
        }
    }
    drop(head); // the last Cc of the head, outside any collection
    let log = RC_LOG.with(|l| l.borrow().clone());
    let fin_on = cfg!(feature = "fin");
    for (i, (f, d, before)) in log.iter().enumerate() {
        if *d != 1 {
            vs.push(Violation { prop: "C04", pred: "P-count", msg: format!("{}: item {} dropped {} time(s) by the time the drop of the head returned", label, i, d) });
            return;
        }
        if fin_on && (*f != 1 || !*before) {
            vs.push(Violation { prop: "C04", pred: "P-count", msg: format!("{}: item {} finalized {} time(s) (before its drop: {})", label, i, f, before) });
            return;
        }
    }
    if state::allocated_bytes().unwrap_or(1) != 0 {
        vs.push(Violation { prop: "C04", pred: "P-count", msg: format!("{}: allocated_bytes() = {:?} right after the drop of the head returned", label, state::allocated_bytes()) });
        return;
    }
    if state::buffered_objects_count().unwrap_or(1) != 0 {
        vs.push(Violation { prop: "C11", pred: "P-intro", msg: format!("{}: buffered_objects_count() = {:?} although every object is gone", label, state::buffered_objects_count()) });
        return;
    }
    st.distinct.insert((kind as u32 * 10 + pattern as u32, pre_collect as u64));
    if st.samples.len() < 6 && st.cases % 997 == 1 {
        st.samples.push(label);
    }
}

pub fn run_rc(max_n: usize, extra: &[usize]) -> (ChainStats, Vec<Violation>) {
    let mut st = ChainStats { cases: 0, collects: 0, max_episodes: 0, callbacks: 0, samples: vec![], distinct: Default::default() };
    let mut vs = Vec::new();
    let sizes: Vec<usize> = (1..=max_n).chain(extra.iter().copied()).collect();
    for n in sizes {
        for kind in 0..3u8 {
            for pattern in 0..5u8 {
                for pre in [false, true] {
                    rc_case(n, kind, pattern, pre, &mut st, &mut vs);
                    if !vs.is_empty() {
                        return (st, vs);
                    }
                }
            }
        }
    }
    reset();
    (st, vs)
}
