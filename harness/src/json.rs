//! Minimal JSON writer (no external crates).

pub enum J {
    Null,
    Bool(bool),
    Num(f64),
    Str(String),
    Arr(Vec<J>),
    Obj(Vec<(String, J)>),
}

impl J {
    pub fn s(x: &str) -> J {
        J::Str(x.to_string())
    }
    pub fn n(x: f64) -> J {
        J::Num(x)
    }
    pub fn obj(v: Vec<(&str, J)>) -> J {
        J::Obj(v.into_iter().map(|(k, v)| (k.to_string(), v)).collect())
    }
    fn write(&self, out: &mut String) {
        match self {
            J::Null => out.push_str("null"),
            J::Bool(b) => out.push_str(if *b { "true" } else { "false" }),
            J::Num(x) => {
                if x.fract() == 0.0 && x.abs() < 9.0e15 {
                    out.push_str(&format!("{}", *x as i64));
                } else {
                    out.push_str(&format!("{}", x));
                }
            },
            J::Str(s) => {
                out.push('"');
                for ch in s.chars() {
                    match ch {
                        '"' => out.push_str("\\\""),
                        '\\' => out.push_str("\\\\"),
                        '\n' => out.push_str("\\n"),
                        '\r' => out.push_str("\\r"),
                        '\t' => out.push_str("\\t"),
                        c if (c as u32) < 0x20 => out.push_str(&format!("\\u{:04x}", c as u32)),
                        c => out.push(c),
                    }
                }
                out.push('"');
            },
            J::Arr(v) => {
                out.push('[');
                for (i, x) in v.iter().enumerate() {
                    if i > 0 {
                        out.push(',');
                    }
                    x.write(out);
                }
                out.push(']');
            },
            J::Obj(v) => {
                out.push('{');
                for (i, (k, x)) in v.iter().enumerate() {
                    if i > 0 {
                        out.push(',');
                    }
                    J::Str(k.clone()).write(out);
                    out.push(':');
                    x.write(out);
                }
                out.push('}');
            },
        }
    }
}

impl std::fmt::Display for J {
    fn fmt(&self, f: &mut std::fmt::Formatter<'_>) -> std::fmt::Result {
        let mut s = String::new();
        self.write(&mut s);
        f.write_str(&s)
    }
}
