//! The closed system: payload type, program handles, callback scripts, fault injector, reference model and
//! oracle predicates. Everything here runs against the real crate; the model is updated in lock-step from
//! inside the callbacks, so it never has to predict what the collector does, only judge it.

#![allow(clippy::needless_range_loop)]

use std::cell::{Cell, RefCell};
use std::panic::{catch_unwind, resume_unwind, AssertUnwindSafe};

use rust_cc::verif_hooks as hk;
use rust_cc::{collect_cycles, state, Cc, Context, Finalize, Trace};

#[cfg(feature = "cleaners")]
use rust_cc::cleaners::{Cleanable, Cleaner};
#[cfg(feature = "weak")]
use rust_cc::weak::Weak;

use crate::alloc;
use crate::ops::*;

// ------------------------------------------------------------------------------------------------
// Script menus
// ------------------------------------------------------------------------------------------------

macro_rules! u8_enum {
    ($name:ident { $($var:ident = $val:expr),+ $(,)? }) => {
        #[derive(Clone, Copy, PartialEq, Eq, Hash, Debug, PartialOrd, Ord)]
        #[repr(u8)]
        pub enum $name { $($var = $val),+ }
        impl $name {
            pub fn from_u8(x: u8) -> $name {
                match x { $($val => $name::$var,)+ _ => panic!(concat!("bad ", stringify!($name), " {}"), x) }
            }
            #[allow(dead_code)]
            pub const ALL: &'static [$name] = &[$($name::$var),+];
        }
    };
}

u8_enum!(FinScript {
    Nop = 0,
    CloneCell0ToG = 1,
    CloneCell1ToG = 2,
    MoveCell0ToG = 3,
    TakeCell0 = 4,
    TakeCell1 = 5,
    UpgradeWcellToG = 6,
    AllocIntoCell1 = 7,
    AllocCycleAndDrop = 8,
    Collect = 9,
    TryUnwrapG = 10,
    FinalizeAgainG = 11,
    DropG = 12,
    UpgradeWcellIntoCell0 = 13,
    CollectThenTryUnwrapG = 14,
    CollectThenFinalizeAgainG = 15,
    CollectThenAlloc = 16,
    NewCyclicIntoCell1 = 17,
    TakeCell1ThenAlloc = 18,
    NewCyclicSaveWeakPanics = 19,
    RegisterOnCell0 = 20,
});

u8_enum!(DropScript {
    Nop = 0,
    UpgradeWcell = 1,
    Collect = 2,
    TryUnwrapG = 3,
    FinalizeAgainG = 4,
    CollectThenTryUnwrapG = 5,
    CollectThenFinalizeAgainG = 6,
    TakeCell1ThenAlloc = 7,
    NewCyclicSaveWeakPanics = 8,
    CloneWcellToW0 = 9,
});

u8_enum!(Closure {
    Nop = 0,
    KeepWeakInSelf = 1,
    SaveWeakToW0 = 2,
    TryUpgrade = 3,
    Alloc = 4,
    Collect = 5,
    Panic = 6,
    NestedNewCyclic = 7,
});

u8_enum!(ActionKind {
    Nop = 0,
    DropCapturedCc = 1,
    Alloc = 2,
    UpgradeOwnerWeak = 3,
    UpgradeNeighbourWeak = 4,
    CleanOther = 5,
    Collect = 6,
    TryUnwrapG = 7,
    CollectThenTryUnwrapG = 8,
    FinalizeAgainG = 9,
    NewCyclicSaveWeakPanics = 10,
});

// ------------------------------------------------------------------------------------------------
// Violations
// ------------------------------------------------------------------------------------------------

#[derive(Clone, Debug)]
pub struct Violation {
    pub prop: &'static str,
    pub pred: &'static str,
    pub msg: String,
}

// ------------------------------------------------------------------------------------------------
// Payload
// ------------------------------------------------------------------------------------------------

pub const CANARY: u64 = 0x5AFE_C0DE_0BAD_F00D;

pub struct EndSentinel {
    id: u8,
}

impl Drop for EndSentinel {
    fn drop(&mut self) {
        cb_drop_end(self.id);
    }
}

pub struct Node {
    pub canary: u64,
    pub id: u8,
    /// Address of the value once it lives in its box (0 before): tells the object from a stale bitwise copy
    pub home: Cell<usize>,
    pub fin_script: Cell<u8>,
    pub drop_script: Cell<u8>,
    pub cells: [RefCell<Option<Cc<Node>>>; S],
    /// traced bag of self-references (saturation lens: the tracing counter must cope with counts at the limit)
    pub bag: RefCell<Vec<Cc<Node>>>,
    #[cfg(feature = "weak")]
    pub wcell: RefCell<Option<Weak<Node>>>,
    #[cfg(feature = "cleaners")]
    pub cleaner: Cleaner,
    // Must be the last field: its Drop marks the end of the node's drop glue
    pub end: EndSentinel,
}

impl Node {
    fn new(id: u8) -> Node {
        Node {
            canary: CANARY ^ (id as u64),
            id,
            home: Cell::new(0),
            fin_script: Cell::new(0),
            drop_script: Cell::new(0),
            cells: Default::default(),
            bag: RefCell::new(Vec::new()),
            #[cfg(feature = "weak")]
            wcell: RefCell::new(None),
            #[cfg(feature = "cleaners")]
            cleaner: Cleaner::new(),
            end: EndSentinel { id },
        }
    }

    #[inline]
    fn canary_ok(&self) -> bool {
        (self.id as usize) < MAXOBJ && self.canary == CANARY ^ (self.id as u64)
    }

    /// The value is where it was sealed (or was never sealed)
    #[inline]
    fn at_home(&self) -> bool {
        self.home.get() == self as *const Node as usize
    }
}

unsafe impl Trace for Node {
    fn trace(&self, ctx: &mut Context<'_>) {
        if !cb_trace_enter(self) {
            return;
        }
        crash_point(CpKind::Trace);
        for s in 0..T {
            self.cells[s].trace(ctx);
            crash_point(CpKind::Trace);
        }
        self.bag.trace(ctx);
        // The untraced cell is deliberately not traced. Weak and Cleaner must report nothing: tracing them here
        // lets every weak / cleaner lens notice an impl that starts reporting a pointer it does not own.
        #[cfg(feature = "weak")]
        self.wcell.trace(ctx);
        #[cfg(feature = "cleaners")]
        self.cleaner.trace(ctx);
        cb_trace_exit();
    }
}

impl Finalize for Node {
    fn finalize(&self) {
        cb_finalize(self);
    }
}

impl Drop for Node {
    fn drop(&mut self) {
        cb_drop(self);
    }
}

// ------------------------------------------------------------------------------------------------
// Reference model
// ------------------------------------------------------------------------------------------------

#[derive(Clone, Copy, PartialEq, Eq, Debug, Hash)]
pub enum WRef {
    /// Created by `Weak::new()`
    Dangling,
    Obj(u8),
}

#[derive(Clone, Debug)]
pub struct MObj {
    pub addr: usize,
    pub size: usize,
    pub boxed: bool,
    pub constructed: bool,
    /// Created by new_cyclic and the closure has not returned yet (or panicked)
    pub cyclic_pending: bool,
    pub cyclic_failed: bool,
    pub dropped: bool,
    pub glue_done: bool,
    pub freed: bool,
    pub moved_out: bool,
    pub fin_flag: bool,
    pub fin_calls: u32,
    pub drop_calls: u32,
    pub cells: [Option<u8>; S],
    /// number of references parked in the object's traced bag (all to `bag_target`; 0xFF = to the object itself)
    pub bag_self: u32,
    pub bag_target: u8,
    pub wcell: Option<WRef>,
    pub fin_script: u8,
    pub drop_script: u8,
    pub limbo: bool,
    /// Existed when a panic was caught: its count may legitimately stay too high (a leak)
    pub leaky: bool,
    /// A Weak::upgrade issued while a destructor was on the stack returned a Cc to this object (during the current operation)
    pub upgraded_in_dtor: bool,
    /// Was made reachable again by a finalizer after having been finalized
    pub resurrected: bool,
    /// finalize was called on it during the current operation (it is a member of a set being processed)
    pub fin_this_op: bool,
    pub buffered: bool,
    pub side: usize,
    pub map_addr: usize,
    pub map_freed: bool,
}

impl MObj {
    fn new() -> MObj {
        MObj {
            addr: 0,
            size: 0,
            boxed: false,
            constructed: true,
            cyclic_pending: false,
            cyclic_failed: false,
            dropped: false,
            glue_done: false,
            freed: false,
            moved_out: false,
            fin_flag: false,
            fin_calls: 0,
            drop_calls: 0,
            cells: [None; S],
            bag_self: 0,
            bag_target: 0xFF,
            wcell: None,
            fin_script: 0,
            drop_script: 0,
            limbo: false,
            leaky: false,
            upgraded_in_dtor: false,
            resurrected: false,
            fin_this_op: false,
            buffered: false,
            side: 0,
            map_addr: 0,
            map_freed: false,
        }
    }
    /// The value exists (constructed and its destructor has not started)
    pub fn value_alive(&self) -> bool {
        self.constructed && !self.dropped && !self.cyclic_pending
    }
    /// Lives in a box that has not been released
    pub fn box_alive(&self) -> bool {
        self.boxed && !self.freed
    }
}

#[derive(Clone, Debug)]
pub struct MAction {
    pub owner: u8,
    pub kind: u8,
    pub captured: Option<u8>,
    pub captured_weak: Option<u8>,
    pub runs: u32,
    /// The closure still exists (not yet run)
    pub pending: bool,
    /// cvar holding its Cleanable (if still held)
    pub cvar: Option<u8>,
    /// An explicit top-level clean() returned for this action
    pub cleaned: bool,
}

#[derive(Clone, Debug)]
pub struct Model {
    pub objs: Vec<MObj>,
    pub vars: [Option<u8>; MAXV],
    pub g: Option<u8>,
    pub wvars: [Option<WRef>; MAXW],
    pub cvars: [Option<u8>; MAXC], // action index
    pub actions: Vec<MAction>,
    pub inflight: Vec<u8>,
    pub stash_strong: [u32; MAXOBJ],
    pub stash_weak: [u32; MAXOBJ],
    pub held: Option<(u8, u8)>, // (object, cell) mutably borrowed by the harness during CollectHolding
    pub faults: u32,
    pub auto: bool,
    pub buf_thr: u8,
    /// Weak handles existing only transiently on the harness stack (new_cyclic's own weak)
    pub inflight_weak: Vec<u8>,
}

pub type Set = u16;

impl Model {
    fn new() -> Model {
        Model {
            objs: Vec::with_capacity(MAXOBJ),
            vars: [None; MAXV],
            g: None,
            wvars: [None; MAXW],
            cvars: [None; MAXC],
            actions: Vec::new(),
            inflight: Vec::new(),
            stash_strong: [0; MAXOBJ],
            stash_weak: [0; MAXOBJ],
            held: None,
            faults: 0,
            auto: false,
            buf_thr: 0,
            inflight_weak: Vec::new(),
        }
    }

    fn roots(&self) -> Set {
        let mut r: Set = 0;
        for v in self.vars.iter().flatten() {
            r |= 1 << v;
        }
        if let Some(g) = self.g {
            r |= 1 << g;
        }
        for i in &self.inflight {
            r |= 1 << i;
        }
        for (i, n) in self.stash_strong.iter().enumerate() {
            if *n > 0 {
                r |= 1 << i;
            }
        }
        r
    }

    /// Outgoing strong edges of `o` that currently exist (cells, and Ccs captured by pending cleaning actions it owns)
    fn out_edges(&self, o: usize, mut f: impl FnMut(u8, bool)) {
        let ob = &self.objs[o];
        if !ob.value_alive() {
            return;
        }
        for s in 0..S {
            if let Some(t) = ob.cells[s] {
                let traced = s < T && self.held != Some((o as u8, s as u8));
                f(t, traced);
            }
        }
        for a in &self.actions {
            if a.owner as usize == o && a.pending {
                if let Some(t) = a.captured {
                    f(t, false);
                }
            }
        }
        // a traced bag filled with references to another object counts as one edge here (count() adds the rest)
        if ob.bag_self > 0 && ob.bag_target != 0xFF {
            f(ob.bag_target, true);
        }
    }

    /// Objects reachable from program-held handles through all Cc fields (traced or not)
    pub fn live(&self) -> Set {
        let mut seen: Set = 0;
        let mut stack: Vec<u8> = Vec::new();
        let r = self.roots();
        for i in 0..self.objs.len() {
            if r & (1 << i) != 0 {
                stack.push(i as u8);
            }
        }
        while let Some(o) = stack.pop() {
            if seen & (1 << o) != 0 {
                continue;
            }
            seen |= 1 << o;
            self.out_edges(o as usize, |t, _| {
                if seen & (1 << t) == 0 {
                    stack.push(t);
                }
            });
        }
        seen
    }

    /// Number of Cc pointers to `o` that currently exist according to the model
    pub fn count(&self, o: usize) -> u32 {
        let mut n = 0u32;
        for v in self.vars.iter().flatten() {
            if *v as usize == o {
                n += 1;
            }
        }
        if self.g == Some(o as u8) {
            n += 1;
        }
        for i in &self.inflight {
            if *i as usize == o {
                n += 1;
            }
        }
        n += self.stash_strong[o];
        if self.objs[o].value_alive() && self.objs[o].bag_target == 0xFF {
            n += self.objs[o].bag_self;
        }
        for p in &self.objs {
            if p.value_alive() && p.bag_self > 0 && p.bag_target as usize == o {
                n += p.bag_self - 1; // one of them is reported by out_edges below
            }
        }
        for p in 0..self.objs.len() {
            self.out_edges(p, |t, _| {
                if t as usize == o {
                    n += 1;
                }
            });
        }
        n
    }

    /// Number of Weak pointers to `o` that currently exist according to the model
    pub fn weak_count(&self, o: usize) -> u32 {
        let mut n = 0u32;
        for w in self.wvars.iter().flatten() {
            if *w == WRef::Obj(o as u8) {
                n += 1;
            }
        }
        for i in &self.inflight_weak {
            if *i as usize == o {
                n += 1;
            }
        }
        n += self.stash_weak[o];
        for a in &self.actions {
            if a.pending && a.captured_weak == Some(o as u8) {
                n += 1;
            }
        }
        for p in &self.objs {
            // The weak cell is released by the drop glue, i.e. when the value's destructor has finished
            if p.constructed && !p.cyclic_pending && !p.glue_done && p.wcell == Some(WRef::Obj(o as u8)) {
                n += 1;
            }
        }
        n
    }

    /// Unreachable objects that a quiescent collection must have reclaimed: everything that is not live and
    /// not pinned (transitively) through an untraced Cc field of an unreclaimed object.
    pub fn must_reclaim(&self) -> Set {
        let n = self.objs.len();
        let live = self.live();
        let mut m: Set = 0;
        for i in 0..n {
            let o = &self.objs[i];
            if o.boxed && o.value_alive() && !o.freed && live & (1 << i) == 0 && !o.limbo {
                m |= 1 << i;
            }
        }
        loop {
            let mut changed = false;
            for p in 0..n {
                let p_in = m & (1 << p) != 0;
                self.out_edges(p, |t, traced| {
                    if m & (1 << t) != 0 && (!p_in || !traced) {
                        m &= !(1 << t);
                        changed = true;
                    }
                });
            }
            if !changed {
                break;
            }
        }
        m
    }
}

// ------------------------------------------------------------------------------------------------
// Execution context
// ------------------------------------------------------------------------------------------------

#[derive(Clone, Copy, PartialEq, Eq, Debug)]
pub enum CpKind {
    Trace,
    Finalize,
    Drop,
    Action,
    Closure,
}

#[derive(Clone, Copy, PartialEq, Eq, Debug)]
pub enum Frame {
    /// A library call issued by the harness. `collecting`: this call is running a collection.
    Api { collect_like: bool, collecting: bool },
    Trace(u8),
    Finalizer(u8),
    Destructor(u8),
    Action(u8),
    Closure(u8),
    /// `Cleanable::clean()` of action issued by the harness (top level or from a script)
    Clean(u8),
}

#[derive(Clone, Debug)]
pub struct LensCfg {
    pub name: &'static str,
    pub nobj: usize,
    pub nvars: usize,
    pub ncells: usize, // traced cells usable by ops (<= T)
    pub ucell: bool,
    pub nw: usize,
    pub nc: usize,
    pub max_faults: u32,
    pub fault_kinds: u8, // bitmask over CpKind
    pub codes: u64,      // bitmask over Code
    pub seed_codes: u64, // operations the construction prefixes of a seed family may use
    pub fin_menu: Vec<u8>,
    pub drop_menu: Vec<u8>,
    pub closure_menu: Vec<u8>,
    pub action_menu: Vec<u8>,
    pub auto_lens: bool,
    pub exact_buffer: bool,
    pub epilogue: bool,
    pub max_actions: usize,
    pub sat_k: u8,
}

pub struct Ctx {
    pub cfg: LensCfg,
    pub vars: [RefCell<Option<Cc<Node>>>; MAXV],
    pub g: RefCell<Option<Cc<Node>>>,
    #[cfg(feature = "weak")]
    pub wvars: [RefCell<Option<Weak<Node>>>; MAXW],
    #[cfg(feature = "cleaners")]
    pub cvars: [RefCell<Option<Cleanable>>; MAXC],
    pub stash: RefCell<Vec<Cc<Node>>>,
    #[cfg(feature = "weak")]
    pub wstash: RefCell<Vec<Weak<Node>>>,
    pub model: RefCell<Model>,
    pub stack: RefCell<Vec<Frame>>,
    pub violations: RefCell<Vec<Violation>>,
    pub fault_at: Cell<u16>,
    pub fault_fired: Cell<bool>,
    /// a script caught the panic of a new_cyclic closure it had started from inside a callback
    pub closure_panic_caught: Cell<bool>,
    pub cp_count: Cell<u16>,
    pub cp_kinds: RefCell<Vec<CpKind>>,
    pub callbacks: Cell<u32>,
    pub budget_exceeded: Cell<bool>,
    /// Liveness at the start of the current finalization batch
    pub batch_live: Cell<Option<Set>>,
    /// per harness-issued collect call: number of tracing episodes
    pub episodes: Cell<u32>,
    pub last_was_trace: Cell<bool>,
    pub fin_events: Cell<u32>,
    pub drop_events: Cell<u32>,
    pub trace_events: Cell<u32>,
    pub action_events: Cell<u32>,
    pub collections_started: Cell<u32>,
    pub stats: RefCell<Stats>,
    pub in_epilogue: Cell<bool>,
    pub fin_mark: Cell<u32>,
    pub drop_mark: Cell<u32>,
    /// resurrections performed by finalizer scripts during the current operation
    pub op_resurrections: Cell<u32>,
}

#[derive(Clone, Copy, Debug, Default)]
pub struct Stats {
    pub reclaimed_by_collector: u32,
    pub reclaimed_by_rc: u32,
    pub resurrections: u32,
    pub upgrades_some: u32,
    pub upgrades_none: u32,
    pub unwrap_ok: u32,
    pub unwrap_err: u32,
    pub faults_fired: u32,
    pub nested_collect_noop: u32,
    pub nested_collect_real: u32,
    pub actions_run: u32,
    pub auto_collections: u32,
}

thread_local! {
    static CTX: Cell<*const Ctx> = const { Cell::new(std::ptr::null()) };
}

#[inline]
pub fn ctx() -> &'static Ctx {
    let p = CTX.with(|c| c.get());
    assert!(!p.is_null(), "no execution context");
    unsafe { &*p }
}

#[inline]
fn try_ctx() -> Option<&'static Ctx> {
    let p = CTX.try_with(|c| c.get()).ok()?;
    if p.is_null() {
        None
    } else {
        Some(unsafe { &*p })
    }
}

pub fn install_ctx(c: *const Ctx) {
    CTX.with(|x| x.set(c));
}

const INJECTED: &str = "ccmc-injected-fault";
const CALLBACK_BUDGET: u32 = 20_000;

pub const AFTER_FAULT_PREFIX: &str = "after a caught callback panic: ";

pub fn viol(prop: &'static str, pred: &'static str, msg: String) {
    if let Some(c) = try_ctx() {
        let _p = alloc::pause();
        // Whatever breaks after a callback panic was caught (or while one unwinds) is a containment failure
        let after_fault = c.fault_fired.get() || c.closure_panic_caught.get() || c.model.try_borrow().map_or(false, |m| m.faults > 0);
        if after_fault && prop != "MACHINERY" && prop != "C07" {
            // The violation keeps its own property (so that e.g. the C05 check sees a second finalization after a
            // panicking finalizer); the C07 check claims every violation carrying this prefix.
            let msg = format!("{}{}", AFTER_FAULT_PREFIX, msg);
            c.violations.borrow_mut().push(Violation { prop, pred, msg });
        } else {
            c.violations.borrow_mut().push(Violation { prop, pred, msg });
        }
    }
}

macro_rules! v {
    ($prop:expr, $pred:expr, $($arg:tt)*) => {
        viol($prop, $pred, format!($($arg)*))
    };
}

fn has_violation() -> bool {
    !ctx().violations.borrow().is_empty()
}

impl Ctx {
    pub fn new(cfg: LensCfg) -> Ctx {
        Ctx {
            cfg,
            vars: Default::default(),
            g: RefCell::new(None),
            #[cfg(feature = "weak")]
            wvars: Default::default(),
            #[cfg(feature = "cleaners")]
            cvars: Default::default(),
            stash: RefCell::new(Vec::new()),
            #[cfg(feature = "weak")]
            wstash: RefCell::new(Vec::new()),
            model: RefCell::new(Model::new()),
            stack: RefCell::new(Vec::new()),
            violations: RefCell::new(Vec::new()),
            fault_at: Cell::new(NO_FAULT),
            fault_fired: Cell::new(false),
            closure_panic_caught: Cell::new(false),
            cp_count: Cell::new(0),
            cp_kinds: RefCell::new(Vec::new()),
            callbacks: Cell::new(0),
            budget_exceeded: Cell::new(false),
            batch_live: Cell::new(None),
            episodes: Cell::new(0),
            last_was_trace: Cell::new(false),
            fin_events: Cell::new(0),
            drop_events: Cell::new(0),
            trace_events: Cell::new(0),
            action_events: Cell::new(0),
            collections_started: Cell::new(0),
            stats: RefCell::new(Stats::default()),
            in_epilogue: Cell::new(false),
            fin_mark: Cell::new(0),
            drop_mark: Cell::new(0),
            op_resurrections: Cell::new(0),
        }
    }

    fn push(&self, f: Frame) {
        self.stack.borrow_mut().push(f);
    }
    fn pop(&self) {
        self.stack.borrow_mut().pop();
    }
    /// A collection (explicit or automatic) is running somewhere down the stack
    fn collection_running(&self) -> bool {
        self.stack.borrow().iter().any(|f| matches!(f, Frame::Api { collecting: true, .. }))
    }
    fn destructor_on_stack(&self) -> bool {
        self.stack.borrow().iter().any(|f| matches!(f, Frame::Destructor(_) | Frame::Action(_)))
    }
    /// A destructor of a managed object (not merely a cleaning action) is on the stack
    pub fn node_destructor_on_stack(&self) -> bool {
        self.stack.borrow().iter().any(|f| matches!(f, Frame::Destructor(_)))
    }
    fn innermost_callback(&self) -> Option<Frame> {
        self.stack.borrow().iter().rev().find(|f| !matches!(f, Frame::Api { .. })).copied()
    }
    /// Marks the innermost collect-like Api frame as running a collection (called from collector callbacks)
    fn note_collector_callback(&self) {
        let mut st = self.stack.borrow_mut();
        // Find the innermost Api frame below the current callback
        for f in st.iter_mut().rev() {
            if let Frame::Api { collect_like, collecting } = f {
                if *collect_like && !*collecting {
                    *collecting = true;
                }
                break;
            }
        }
    }
}

/// RAII frame
struct FrameGuard;
impl FrameGuard {
    fn new(f: Frame) -> FrameGuard {
        ctx().push(f);
        FrameGuard
    }
}
impl Drop for FrameGuard {
    fn drop(&mut self) {
        if let Some(c) = try_ctx() {
            c.pop();
        }
    }
}

// ------------------------------------------------------------------------------------------------
// Allocation events
// ------------------------------------------------------------------------------------------------

pub fn alloc_observer(ev: hk::AllocEvent, addr: usize, size: usize, align: usize) {
    match ev {
        hk::AllocEvent::BoxAlloc => {
            alloc::tag(addr, size, align, alloc::Kind::CcBox);
            note_tagged_box(addr);
        },
        hk::AllocEvent::OtherAlloc => alloc::tag(addr, size, align, alloc::Kind::Side),
        _ => {},
    }
}

/// Walks the collector's buffer validating every address against the allocator before reading through it
/// (a released allocation left in the buffer is reported instead of dereferenced).
pub fn safe_buffer() -> Result<Vec<usize>, String> {
    let mut out: Vec<usize> = Vec::new();
    let mut addr = hk::buffer_first();
    while addr != 0 {
        match alloc::block(addr) {
            Some(b) if !b.freed && b.kind == alloc::Kind::CcBox => {},
            other => return Err(format!("the buffer contains {:#x} which is not a live managed allocation ({:?})", addr, other)),
        }
        if out.contains(&addr) {
            return Err(format!("the buffer is cyclic or contains {:#x} twice", addr));
        }
        // the back link of every element must name its predecessor (0 for the head): a stale back link is followed -
        // and written through - when the element leaves the buffer later
        let snap = unsafe { hk::snapshot_at(addr) };
        let want_prev = out.last().copied().unwrap_or(0);
        if snap.prev != want_prev {
            return Err(format!("the buffered object at {:#x} has a back link to {:#x}, but its predecessor in the buffer is {:#x}", addr, snap.prev, want_prev));
        }
        out.push(addr);
        if out.len() > 64 {
            return Err("the buffer holds more than 64 objects".to_string());
        }
        addr = snap.next;
    }
    Ok(out)
}

/// Processes allocator events: must be called before any model mutation that follows a library call.
fn drain_alloc() {
    let c = ctx();
    alloc::drain(|ev| match ev {
        alloc::Event::Freed { ptr, kind, .. } => {
            if kind != alloc::Kind::CcBox {
                // Side records are judged in post_op (side record lifetime)
                return;
            }
            // (index, was live, value gone, glue finished, new_cyclic pending, moved out)
            let mut hit: Option<(usize, bool, bool, bool, bool, bool)> = None;
            {
                let mut m = c.model.borrow_mut();
                let live = m.live();
                for i in 0..m.objs.len() {
                    if m.objs[i].boxed && !m.objs[i].freed && m.objs[i].addr == ptr {
                        let o = &mut m.objs[i];
                        o.freed = true;
                        o.buffered = false;
                        hit = Some((i, live & (1 << i) != 0, o.dropped || o.moved_out || o.cyclic_failed, o.glue_done || o.moved_out || o.cyclic_failed, o.cyclic_pending, o.moved_out));
                        break;
                    }
                }
                if hit.is_none() {
                    for o in m.objs.iter_mut() {
                        if o.map_addr == ptr && !o.map_freed {
                            o.map_freed = true;
                        }
                    }
                }
            }
            if let Some((i, was_live, gone, glue, pending, moved)) = hit {
                if was_live && !moved {
                    v!("C01", "P-live", "allocation of reachable object #{} released", i);
                }
                // (pending: the new_cyclic panic path is judged by the NewCyclic operation)
                if !gone && !pending {
                    v!("C03", "P-once", "allocation of object #{} released although its value was neither dropped nor moved out", i);
                } else if !glue && !pending {
                    v!("C03", "P-once", "allocation of object #{} released while its destructor is still running", i);
                }
            }
        },
        alloc::Event::Tagged { .. } => {},
        alloc::Event::DoubleFree { ptr, kind } => {
            v!("C03", "P-once", "double free of {:?} block {:#x}", kind, ptr);
        },
        alloc::Event::LayoutMismatch { ptr, kind, alloc_size, alloc_align, free_size, free_align } => {
            v!(
                "C03",
                "P-once",
                "{:?} block {:#x} allocated with size {} align {} released with size {} align {}",
                kind,
                ptr,
                alloc_size,
                alloc_align,
                free_size,
                free_align
            );
        },
        alloc::Event::ObserverMismatch { ptr, size, align } => {
            v!("C03", "P-once", "crate reported an allocation {:#x} (size {}, align {}) unknown to the allocator", ptr, size, align);
        },
        alloc::Event::Overflow => {
            v!("MACHINERY", "alloc-log", "allocator event log overflow");
        },
    });
}

// ------------------------------------------------------------------------------------------------
// Fault injection
// ------------------------------------------------------------------------------------------------

fn crash_point(kind: CpKind) {
    let Some(c) = try_ctx() else { return };
    if c.cfg.fault_kinds & (1 << kind as u8) == 0 {
        return;
    }
    if std::thread::panicking() || c.fault_fired.get() {
        return;
    }
    let n = c.cp_count.get();
    c.cp_count.set(n + 1);
    {
        let mut k = c.cp_kinds.borrow_mut();
        if k.len() < 64 {
            k.push(kind);
        }
    }
    if c.fault_at.get() == n {
        c.fault_fired.set(true);
        c.stats.borrow_mut().faults_fired += 1;
        std::panic::panic_any(INJECTED);
    }
}

fn is_injected(p: &(dyn std::any::Any + Send)) -> bool {
    p.downcast_ref::<&'static str>().map_or(false, |s| *s == INJECTED)
}

fn payload_str(p: &(dyn std::any::Any + Send)) -> String {
    if let Some(s) = p.downcast_ref::<&'static str>() {
        s.to_string()
    } else if let Some(s) = p.downcast_ref::<String>() {
        s.clone()
    } else {
        "<non-string panic payload>".to_string()
    }
}

fn budget() -> bool {
    let c = ctx();
    let n = c.callbacks.get() + 1;
    c.callbacks.set(n);
    if n > CALLBACK_BUDGET {
        if !c.budget_exceeded.get() {
            c.budget_exceeded.set(true);
            v!("C06", "P-res", "callback budget ({}) exceeded: the operation does not terminate", CALLBACK_BUDGET);
        }
        return false;
    }
    true
}

// ------------------------------------------------------------------------------------------------
// Callbacks
// ------------------------------------------------------------------------------------------------

fn cb_trace_enter(node: &Node) -> bool {
    let Some(c) = try_ctx() else { return false };
    if !node.canary_ok() {
        v!("C01", "P-live", "trace called on a value with a corrupted canary (freed, uninitialised or foreign memory)");
        return false;
    }
    if !node.at_home() {
        v!("C14", "P-cyclic", "trace called on memory that is not the object itself (uninitialised memory or a stale copy of object #{})", node.id);
        return false;
    }
    if !budget() {
        return false;
    }
    c.trace_events.set(c.trace_events.get() + 1);
    c.note_collector_callback();
    if !c.last_was_trace.get() {
        c.episodes.set(c.episodes.get() + 1);
        c.last_was_trace.set(true);
    }
    c.batch_live.set(None);
    match state::is_tracing() {
        Ok(true) => {},
        other => v!("C12", "P-phase", "is_tracing() = {:?} inside Trace::trace of object #{}", other, node.id),
    }
    {
        let m = c.model.borrow();
        let id = node.id as usize;
        if id >= m.objs.len() || !m.objs[id].constructed || m.objs[id].cyclic_pending {
            v!("C14", "P-cyclic", "trace called on object #{} which was never constructed", id);
            return false;
        }
        if m.objs[id].dropped || m.objs[id].freed {
            v!("C03", "P-once", "trace called on object #{} after its drop/release", id);
            return false;
        }
    }
    c.push(Frame::Trace(node.id));
    true
}

fn cb_trace_exit() {
    if let Some(c) = try_ctx() {
        c.pop();
    }
}

/// Pops the Trace frame also when a crash point unwinds out of `trace`
pub fn unwind_fix_stack(depth: usize) {
    if let Some(c) = try_ctx() {
        c.stack.borrow_mut().truncate(depth);
    }
}

fn cb_finalize(node: &Node) {
    let Some(c) = try_ctx() else { return };
    if !node.canary_ok() {
        v!("C01", "P-live", "finalize called on a value with a corrupted canary (freed, uninitialised or foreign memory)");
        return;
    }
    if !node.at_home() {
        v!("C14", "P-cyclic", "finalize called on memory that is not the object itself (uninitialised memory or a stale copy of object #{})", node.id);
        return;
    }
    drain_alloc();
    if !budget() {
        return;
    }
    let id = node.id as usize;
    c.fin_events.set(c.fin_events.get() + 1);
    c.last_was_trace.set(false);
    if !cfg!(feature = "fin") {
        v!("C05", "P-fin", "finalize called on object #{} although the finalization feature is disabled", id);
    }
    match state::is_tracing() {
        Ok(false) => {},
        other => v!("C12", "P-phase", "is_tracing() = {:?} inside finalize of object #{}", other, id),
    }
    {
        let mut m = c.model.borrow_mut();
        if id >= m.objs.len() || !m.objs[id].constructed || m.objs[id].cyclic_pending {
            drop(m);
            v!("C14", "P-cyclic", "finalize called on object #{} which was never constructed", id);
            return;
        }
        if m.objs[id].dropped || m.objs[id].freed {
            drop(m);
            v!("C05", "P-fin", "finalize called on object #{} after its drop/release", id);
            return;
        }
        let live_now = m.live();
        let batch = match c.batch_live.get() {
            Some(b) => b,
            None => {
                c.batch_live.set(Some(live_now));
                live_now
            },
        };
        if batch & (1 << id) != 0 && live_now & (1 << id) != 0 {
            drop(m);
            v!("C05", "P-fin", "finalize called on object #{} which is reachable from program-held pointers", id);
            return;
        }
        if m.objs[id].fin_flag {
            let calls = m.objs[id].fin_calls;
            let res = m.objs[id].resurrected;
            drop(m);
            if res {
                v!("C06", "P-res", "resurrected object #{} finalized a second time when it became unreachable again", id);
            }
            v!("C05", "P-fin", "object #{} finalized again without finalize_again (finalize calls so far: {})", id, calls);
            return;
        }
        m.objs[id].fin_flag = true;
        m.objs[id].fin_this_op = true;
        m.objs[id].fin_calls += 1;
        // Everything reachable from the finalized object must still be undropped
        let mut seen: Set = 0;
        let mut st = vec![id as u8];
        let mut bad: Option<usize> = None;
        while let Some(o) = st.pop() {
            if seen & (1 << o) != 0 {
                continue;
            }
            seen |= 1 << o;
            let ob = &m.objs[o as usize];
            if ob.dropped || (ob.boxed && ob.freed) {
                bad = Some(o as usize);
                break;
            }
            for s in 0..S {
                if let Some(t) = ob.cells[s] {
                    st.push(t);
                }
            }
        }
        drop(m);
        if let Some(b) = bad {
            v!("C05", "P-fin", "finalizer of object #{} can reach object #{} which has already been dropped", id, b);
            return;
        }
    }
    // "strong_count() always equals the number of Cc pointers that currently exist" - also as seen from inside a
    // finalizer: the counts of the objects this one points to (no drop glue in progress, no caught panic before)
    if !c.destructor_on_stack() && !std::thread::panicking() {
        let m = c.model.borrow();
        if m.faults == 0 {
            let mut bad: Option<(usize, u32, u32)> = None;
            for s in 0..S {
                if let (Some(t), Ok(cell)) = (m.objs[id].cells[s], node.cells[s].try_borrow()) {
                    if let Some(cc) = cell.as_ref() {
                        let (real, want) = (cc.strong_count(), m.count(t as usize));
                        if real != want && !m.objs[t as usize].leaky && !m.objs[t as usize].limbo {
                            bad = Some((t as usize, real, want));
                        }
                    }
                }
            }
            drop(m);
            if let Some((t, real, want)) = bad {
                v!("C04", "P-count", "inside the finalizer of object #{}: strong_count() of object #{} is {} but {} Cc pointers to it exist", id, t, real, want);
                return;
            }
        }
    }
    c.note_collector_or_rc_finalizer();
    let _f = FrameGuard::new(Frame::Finalizer(node.id));
    crash_point(CpKind::Finalize);
    if !std::thread::panicking() && !has_violation() {
        run_fin_script(node);
    }
    crash_point(CpKind::Finalize);
}

impl Ctx {
    /// A finalizer directly below a collect-like Api frame is a collector callback
    fn note_collector_or_rc_finalizer(&self) {
        let is_collect_like = {
            let st = self.stack.borrow();
            matches!(st.last(), Some(Frame::Api { collect_like: true, .. }))
        };
        if is_collect_like {
            self.note_collector_callback();
        }
    }
}

/// Makes the rest of a wrongly started drop glue harmless: overwrites the value with an inert one, without
/// dropping what was there (it is garbage, already dropped, or still in use).
fn neutralise(node: &mut Node) {
    unsafe {
        std::ptr::write(node as *mut Node, Node::new(0xFF));
    }
}

fn cb_drop(node: &mut Node) {
    let Some(c) = try_ctx() else { return };
    if !node.canary_ok() {
        v!("C14", "P-cyclic", "destructor run on a value with a corrupted canary (never constructed, freed or foreign memory)");
        neutralise(node);
        return;
    }
    drain_alloc();
    let id = node.id as usize;
    {
        // A boxed object is dropped in place; anything else with this identity is not the object
        let m = c.model.borrow();
        let in_box = id < m.objs.len() && m.objs[id].boxed && !m.objs[id].moved_out && !m.objs[id].cyclic_pending;
        drop(m);
        if in_box && !node.at_home() {
            v!("C03", "P-once", "destructor run on a bitwise copy of object #{} (the value is dropped a second time)", id);
            v!("C14", "P-cyclic", "destructor run on memory that is not the object itself (uninitialised memory or a stale copy of object #{})", id);
            if c.stack.borrow().iter().any(|f| matches!(f, Frame::Finalizer(_) | Frame::Destructor(_))) {
                v!("C12", "P-phase", "a Cc API called from a finalizer or destructor dropped a copy of object #{} instead of leaving it unchanged", id);
            }
            neutralise(node);
            return;
        }
    }
    c.drop_events.set(c.drop_events.get() + 1);
    c.last_was_trace.set(false);
    if !budget() {
        return;
    }
    match state::is_tracing() {
        Ok(false) => {},
        other => v!("C12", "P-phase", "is_tracing() = {:?} inside the destructor of object #{}", other, id),
    }
    {
        let mut m = c.model.borrow_mut();
        if id >= m.objs.len() || !m.objs[id].constructed || m.objs[id].cyclic_pending {
            drop(m);
            v!("C14", "P-cyclic", "destructor run on object #{} which was never constructed", id);
            neutralise(node);
            return;
        }
        if m.objs[id].dropped {
            drop(m);
            v!("C03", "P-once", "object #{} dropped twice", id);
            neutralise(node);
            return;
        }
        if m.objs[id].boxed && m.objs[id].freed && !m.objs[id].moved_out {
            drop(m);
            v!("C03", "P-once", "object #{} dropped after its allocation was released", id);
            neutralise(node);
            return;
        }
        let o = &m.objs[id];
        let in_box = o.boxed && !o.moved_out;
        if in_box {
            let live = m.live();
            if live & (1 << id) != 0 {
                let via_upgrade = o.upgraded_in_dtor;
                let resurrected = o.resurrected || c.stats.borrow().resurrections > 0 && c.op_resurrections.get() > 0;
                drop(m);
                if resurrected {
                    v!("C06", "P-res", "object #{} was reachable again (a finalizer resurrected it or an object leading to it) but the collector went on to destroy it", id);
                }
                if via_upgrade {
                    v!("C08", "P-upg", "Weak::upgrade called from a destructor or cleaning action returned a Cc to object #{} whose destruction the collector then went on with", id);
                }
                v!("C01", "P-live", "object #{} dropped while reachable from program-held pointers", id);
                neutralise(node);
                return;
            }
            if cfg!(feature = "fin") && !o.fin_flag && !o.limbo {
                drop(m);
                v!("C05", "P-fin", "object #{} dropped without having been finalized", id);
                neutralise(node);
                return;
            }
        }
        let by_collector = matches!(c.stack.borrow().last(), Some(Frame::Api { collect_like: true, .. }));
        {
            let mut st = c.stats.borrow_mut();
            if in_box {
                if by_collector {
                    st.reclaimed_by_collector += 1;
                } else {
                    st.reclaimed_by_rc += 1;
                }
            }
        }
        m.objs[id].dropped = true;
        m.objs[id].drop_calls += 1;
        m.objs[id].buffered = false;
    }
    predict_children_buffered(id);
    if matches!(c.stack.borrow().last(), Some(Frame::Api { collect_like: true, .. })) {
        c.note_collector_callback();
    }
    c.push(Frame::Destructor(node.id));
    crash_point(CpKind::Drop);
    if !std::thread::panicking() && !has_violation() {
        run_drop_script(node);
    }
    // The Destructor frame is popped by the EndSentinel, after the fields have been dropped
}

fn cb_drop_end(id: u8) {
    let Some(c) = try_ctx() else { return };
    let mut m = c.model.borrow_mut();
    if (id as usize) < m.objs.len() {
        m.objs[id as usize].glue_done = true;
    }
    // The Cleaner field has just been dropped (the sentinel is the last field): in panic-free executions every
    // action registered on it has run by now - also when this destruction was itself caused by one of those actions
    #[cfg(feature = "cleaners")]
    if m.faults == 0 && !std::thread::panicking() {
        let late: Vec<(usize, u32)> = m.actions.iter().enumerate().filter(|(_, a)| a.owner == id && a.runs != 1).map(|(k, a)| (k, a.runs)).collect();
        if let Some((k, runs)) = late.first() {
            let (k, runs) = (*k, *runs);
            drop(m);
            v!("C10", "P-clean", "cleaning action #{} has run {} times when the drop of its Cleaner (owner #{}) returned", k, runs, id);
            m = c.model.borrow_mut();
        }
    }
    drop(m);
    // Pop up to and including this object's Destructor frame
    let mut st = c.stack.borrow_mut();
    if let Some(pos) = st.iter().rposition(|f| *f == Frame::Destructor(id)) {
        st.truncate(pos);
    }
}

// ------------------------------------------------------------------------------------------------
// Scripts
// ------------------------------------------------------------------------------------------------

/// Marks everything reachable from `t` that has already been finalized as resurrected
fn mark_resurrected(t: u8) {
    let c = ctx();
    c.op_resurrections.set(c.op_resurrections.get() + 1);
    let mut m = c.model.borrow_mut();
    let mut st = vec![t];
    let mut seen: Set = 0;
    while let Some(o) = st.pop() {
        if seen & (1 << o) != 0 {
            continue;
        }
        seen |= 1 << o;
        if m.objs[o as usize].fin_flag {
            m.objs[o as usize].resurrected = true;
        }
        for s in 0..S {
            if let Some(x) = m.objs[o as usize].cells[s] {
                st.push(x);
            }
        }
    }
}

fn g_is_empty() -> bool {
    ctx().g.borrow().is_none()
}

/// Creates a node from inside a callback (or at top level). Returns None if the object budget is exhausted.
fn make_node(expect_finalized: Option<bool>) -> Option<(u8, Cc<Node>)> {
    make_node_owning(expect_finalized, None)
}

/// `own`: a handle (to model object `t`) that the value owns in its cell 0 *before* `Cc::new` boxes it: while the
/// automatic collection of `Cc::new` runs, that Cc is held by a value no box contains yet
fn make_node_owning(expect_finalized: Option<bool>, own: Option<(u8, Cc<Node>)>) -> Option<(u8, Cc<Node>)> {
    let c = ctx();
    let id = {
        let mut m = c.model.borrow_mut();
        if m.objs.len() >= c.cfg.nobj {
            return None;
        }
        m.objs.push(MObj::new());
        (m.objs.len() - 1) as u8
    };
    let before = state::executions_count().unwrap_or(0);
    let running = c.collection_running();
    let cc = {
        let _f = FrameGuard::new(Frame::Api { collect_like: true, collecting: false });
        let depth = c.stack.borrow().len();
        let value = Node::new(id);
        let owned_t = own.as_ref().map(|x| x.0);
        if let Some((t, h)) = own {
            *value.cells[0].borrow_mut() = Some(h);
            c.model.borrow_mut().inflight.push(t);
        }
        match catch_unwind(AssertUnwindSafe(move || Cc::new(value))) {
            Ok(cc) => {
                if let Some(t) = owned_t {
                    let mut m = c.model.borrow_mut();
                    if let Some(pos) = m.inflight.iter().rposition(|x| *x == t) {
                        m.inflight.remove(pos);
                    }
                    m.objs[id as usize].cells[0] = Some(t);
                }
                cc
            },
            Err(p) => {
                unwind_fix_stack(depth);
                // The value was dropped by the unwinding (never boxed)
                resume_unwind(p);
            },
        }
    };
    drain_alloc();
    let after = state::executions_count().unwrap_or(0);
    check_auto_collect(before, after, running);
    let addr = hk::box_addr(&cc);
    let blk = alloc::block(addr);
    cc.home.set(&*cc as *const Node as usize);
    {
        let mut m = c.model.borrow_mut();
        let o = &mut m.objs[id as usize];
        o.addr = addr;
        o.boxed = true;
        o.size = blk.map_or(0, |b| b.size);
    }
    match blk {
        Some(b) if b.kind == alloc::Kind::CcBox && !b.freed => {},
        other => v!("C03", "P-once", "box of new object #{} is not a live crate allocation: {:?}", id, other),
    }
    #[cfg(feature = "fin")]
    {
        let af = cc.already_finalized();
        if let Some(exp) = expect_finalized {
            if af != exp {
                v!("C05", "P-fin", "object #{} created {} reports already_finalized() = {}", id, if exp { "inside a finalizer" } else { "outside finalizers" }, af);
            }
        }
        c.model.borrow_mut().objs[id as usize].fin_flag = af;
    }
    #[cfg(not(feature = "fin"))]
    let _ = expect_finalized;
    Some((id, cc))
}

/// Like make_node, through Cc::new_cyclic (the closure keeps nothing)
#[cfg(feature = "weak")]
fn make_cyclic_node(expect_finalized: Option<bool>) -> Option<(u8, Cc<Node>)> {
    make_cyclic_node_hook(expect_finalized, None)
}

/// `hook` runs inside the closure (used by the nested-new_cyclic closure script to look at the *outer* Weak)
#[cfg(feature = "weak")]
fn make_cyclic_node_hook(expect_finalized: Option<bool>, hook: Option<&dyn Fn()>) -> Option<(u8, Cc<Node>)> {
    let c = ctx();
    let id = {
        let mut m = c.model.borrow_mut();
        if m.objs.len() >= c.cfg.nobj {
            return None;
        }
        let mut o = MObj::new();
        o.constructed = false;
        o.cyclic_pending = true;
        m.objs.push(o);
        (m.objs.len() - 1) as u8
    };
    let before = state::executions_count().unwrap_or(0);
    let running = c.collection_running();
    let cc = {
        let _f = FrameGuard::new(Frame::Api { collect_like: true, collecting: false });
        let depth = c.stack.borrow().len();
        match catch_unwind(AssertUnwindSafe(|| {
            Cc::new_cyclic(|w: &Weak<Node>| {
                c.model.borrow_mut().inflight_weak.push(id);
                if w.strong_count() != 0 || w.upgrade().is_some() {
                    v!("C14", "P-cyclic", "the Weak given to a new_cyclic closure (called inside a callback or another closure) is alive");
                }
                if let Some(h) = hook {
                    h();
                }
                let node = Node::new(id);
                c.model.borrow_mut().objs[id as usize].constructed = true;
                node
            })
        })) {
            Ok(cc) => cc,
            Err(p) => {
                unwind_fix_stack(depth);
                let mut m = c.model.borrow_mut();
                m.objs[id as usize].cyclic_pending = false;
                m.objs[id as usize].cyclic_failed = true;
                m.objs[id as usize].constructed = false;
                if let Some(pos) = m.inflight_weak.iter().rposition(|x| *x == id) {
                    m.inflight_weak.remove(pos);
                }
                drop(m);
                resume_unwind(p);
            },
        }
    };
    drain_alloc();
    let after = state::executions_count().unwrap_or(0);
    check_auto_collect(before, after, running);
    let addr = hk::box_addr(&cc);
    cc.home.set(&*cc as *const Node as usize);
    {
        let mut m = c.model.borrow_mut();
        if let Some(pos) = m.inflight_weak.iter().rposition(|x| *x == id) {
            m.inflight_weak.remove(pos);
        }
        let o = &mut m.objs[id as usize];
        o.cyclic_pending = false;
        o.addr = addr;
        o.boxed = true;
        o.size = alloc::block(addr).map_or(0, |b| b.size);
    }
    if cc.strong_count() != 1 {
        v!("C14", "P-cyclic", "strong_count() = {} right after new_cyclic returned", cc.strong_count());
    }
    #[cfg(feature = "fin")]
    {
        let af = cc.already_finalized();
        if let Some(exp) = expect_finalized {
            if af != exp {
                v!("C05", "P-fin", "object #{} created by new_cyclic {} reports already_finalized() = {}", id, if exp { "inside a finalizer" } else { "outside finalizers" }, af);
                v!("C14", "P-cyclic", "object #{} created by new_cyclic {} reports already_finalized() = {}", id, if exp { "inside a finalizer" } else { "outside finalizers" }, af);
            }
        }
        c.model.borrow_mut().objs[id as usize].fin_flag = af;
    }
    #[cfg(not(feature = "fin"))]
    let _ = expect_finalized;
    Some((id, cc))
}

/// Checks the executions_count delta of a `Cc::new`-like call
fn check_auto_collect(before: usize, after: usize, was_running: bool) {
    let c = ctx();
    let d = after.wrapping_sub(before);
    if d > 0 {
        c.stats.borrow_mut().auto_collections += d as u32;
    }
    if was_running && d != 0 {
        v!("C12", "P-phase", "creating a Cc from a callback of a running collection started {} collection(s)", d);
    }
    if d > 1 {
        v!("C15", "P-policy", "one Cc creation started {} collections", d);
    }
    let auto = cfg!(feature = "auto") && c.model.borrow().auto;
    if !auto && d != 0 {
        v!("C15", "P-policy", "a Cc creation started a collection although automatic collection is disabled");
    }
}

/// `collect_cycles()` issued by the harness, at top level or from a script
fn do_collect() {
    let c = ctx();
    let running = c.collection_running();
    let before = state::executions_count().unwrap_or(0);
    let saved_ep = c.episodes.get();
    let saved_lwt = c.last_was_trace.get();
    c.episodes.set(0);
    c.last_was_trace.set(false);
    {
        let _f = FrameGuard::new(Frame::Api { collect_like: true, collecting: !running });
        let depth = c.stack.borrow().len();
        if let Err(p) = catch_unwind(AssertUnwindSafe(collect_cycles)) {
            unwind_fix_stack(depth);
            c.episodes.set(saved_ep);
            c.last_was_trace.set(saved_lwt);
            resume_unwind(p);
        }
    }
    drain_alloc();
    let after = state::executions_count().unwrap_or(0);
    let d = after.wrapping_sub(before);
    if running {
        c.stats.borrow_mut().nested_collect_noop += 1;
        if d != 0 {
            v!("C12", "P-phase", "collect_cycles() called from a callback of a running collection started {} collection(s)", d);
            // (the same observation read as a counter: no collection was started, so the count must not move)
            v!("C11", "P-intro", "executions_count() changed by {} across a collect_cycles() call that a running collection must ignore", d);
        }
    } else {
        if c.stack.borrow().iter().any(|f| !matches!(f, Frame::Api { .. })) {
            c.stats.borrow_mut().nested_collect_real += 1;
        }
        if d != 1 {
            v!("C11", "P-intro", "executions_count() changed by {} across one collect_cycles() call that started a collection", d);
        }
    }
    if c.episodes.get() > 10 {
        v!("C06", "P-res", "one collect_cycles() call ran {} tracing passes (more than the documented cap of 10)", c.episodes.get());
    }
    c.episodes.set(saved_ep);
    c.last_was_trace.set(saved_lwt);
}

fn script_try_unwrap_g(who: &str) {
    let c = ctx();
    let taken = c.g.borrow_mut().take();
    if let Some(cc) = taken {
        let addr = hk::box_addr(&cc);
        let cnt = cc.strong_count();
        match cc.try_unwrap() {
            Ok(n) => {
                v!("C12", "P-phase", "try_unwrap inside a {} returned Ok (strong count was {})", who, cnt);
                std::mem::forget(n);
            },
            Err(back) => {
                if hk::box_addr(&back) != addr {
                    v!("C12", "P-phase", "try_unwrap inside a {} returned Err with a different pointer", who);
                }
                if back.strong_count() != cnt {
                    v!("C12", "P-phase", "try_unwrap inside a {} changed the strong count {} -> {}", who, cnt, back.strong_count());
                }
                *c.g.borrow_mut() = Some(back);
            },
        }
    }
}

fn script_finalize_again_g(who: &str) {
    #[cfg(feature = "fin")]
    {
        let c = ctx();
        let mut taken = c.g.borrow_mut().take();
        if let Some(cc) = taken.as_mut() {
            let before = cc.already_finalized();
            let depth = c.stack.borrow().len();
            let r = catch_unwind(AssertUnwindSafe(|| cc.finalize_again()));
            unwind_fix_stack(depth);
            if r.is_ok() {
                v!("C12", "P-phase", "finalize_again inside a {} did not panic", who);
            }
            if cc.already_finalized() != before {
                v!("C12", "P-phase", "finalize_again inside a {} changed already_finalized() {} -> {}", who, before, cc.already_finalized());
            }
        }
        *c.g.borrow_mut() = taken;
    }
    #[cfg(not(feature = "fin"))]
    let _ = who;
}

/// Weak::upgrade with the P-upg oracle. `w` targets `target` according to the model.
#[cfg(feature = "weak")]
fn checked_upgrade(w: &Weak<Node>, target: WRef) -> Option<Cc<Node>> {
    let c = ctx();
    // Judge on the model state before the call
    let (must_none, must_some, tid): (Option<&'static str>, bool, Option<usize>) = {
        let m = c.model.borrow();
        match target {
            WRef::Dangling => (Some("created by Weak::new()"), false, None),
            WRef::Obj(t) => {
                let t = t as usize;
                let o = &m.objs[t];
                let cnt = m.count(t);
                let dctx = c.destructor_on_stack();
                let mn = if o.cyclic_pending {
                    Some("still inside its new_cyclic closure")
                } else if o.cyclic_failed {
                    Some("its new_cyclic closure panicked")
                } else if o.dropped {
                    Some("already dropped")
                } else if o.moved_out {
                    Some("moved out by try_unwrap")
                } else if o.freed {
                    Some("already released")
                } else {
                    None
                };
                // Inside destructor contexts the crate may answer None for members of the set being processed; an
                // object reachable from the program that no finalizer touched in this operation is not such a member
                // (an object that was garbage when the current finalization batch began may sit in a collector list
                // even if an earlier finalizer of the batch has just resurrected it)
                let in_batch_live = c.batch_live.get().map_or(true, |b| b & (1 << t) != 0);
                let live_outside = dctx && m.live() & (1 << t) != 0 && !o.fin_this_op && in_batch_live;
                let ms = mn.is_none() && cnt > 0 && !o.limbo && (!dctx || live_outside);
                (mn, ms, Some(t))
            },
        }
    };
    let sc = w.strong_count();
    // A live target that already has the maximum number of Ccs: the upgrade must panic and change nothing (C16)
    let at_max = must_none.is_none() && tid.map_or(false, |t| c.model.borrow().count(t) >= crate::world::STRONG_MAX);
    if at_max {
        let depth = c.stack.borrow().len();
        let r = catch_unwind(AssertUnwindSafe(|| w.upgrade()));
        unwind_fix_stack(depth);
        match r {
            Ok(x) => {
                if must_some || x.is_some() {
                    v!("C16", "P-sat", "Weak::upgrade at the maximum strong count did not panic (returned {})", if x.is_some() { "Some" } else { "None" });
                }
                std::mem::forget(x);
            },
            Err(_) => {
                if w.strong_count() != sc {
                    v!("C16", "P-sat", "a panicking Weak::upgrade changed the strong count {} -> {}", sc, w.strong_count());
                }
            },
        }
        return None;
    }
    let res = w.upgrade();
    match &res {
        Some(cc) => {
            c.stats.borrow_mut().upgrades_some += 1;
            if let Some(why) = must_none {
                v!("C08", "P-upg", "Weak::upgrade returned Some although the target ({:?}) is {}", target, why);
                // Do not touch the value
                std::mem::forget(res);
                return None;
            }
            let t = tid.unwrap();
            let addr = c.model.borrow().objs[t].addr;
            if hk::box_addr(cc) != addr {
                v!("C08", "P-upg", "Weak::upgrade returned a Cc to a different allocation than object #{}", t);
                std::mem::forget(res);
                return None;
            }
            match alloc::block(addr) {
                Some(b) if !b.freed => {},
                _ => {
                    v!("C08", "P-upg", "Weak::upgrade returned a Cc to the released allocation of object #{}", t);
                    std::mem::forget(res);
                    return None;
                },
            }
            if sc == 0 {
                v!("C09", "P-wcnt", "Weak::strong_count() was 0 but upgrade() succeeded for object #{}", t);
            }
            let dctx = c.destructor_on_stack();
            let mut m = c.model.borrow_mut();
            m.objs[t].buffered = false;
            if dctx {
                m.objs[t].upgraded_in_dtor = true;
            }
        },
        None => {
            c.stats.borrow_mut().upgrades_none += 1;
            if must_some {
                if sc == 0 {
                    v!("C09", "P-wcnt", "Weak::strong_count() returned 0 although {} Cc pointers to the live object #{} exist", c.model.borrow().count(tid.unwrap()), tid.unwrap());
                }
                v!("C08", "P-upg", "Weak::upgrade returned None although object #{} is alive (model count {})", tid.unwrap(), c.model.borrow().count(tid.unwrap()));
            }
            if sc != 0 && must_none.is_none() && !c.destructor_on_stack() {
                v!("C09", "P-wcnt", "Weak::strong_count() was {} but upgrade() failed", sc);
            }
        },
    }
    res
}

fn run_fin_script(node: &Node) {
    let c = ctx();
    let id = node.id as usize;
    let k = FinScript::from_u8(node.fin_script.get());
    match k {
        FinScript::Nop => {},
        FinScript::CloneCell0ToG | FinScript::CloneCell1ToG => {
            let s = if k == FinScript::CloneCell0ToG { 0 } else { 1 };
            if g_is_empty() {
                if let Ok(cell) = node.cells[s].try_borrow() {
                    if let Some(child) = cell.as_ref() {
                        let cl = child.clone();
                        let mut m = c.model.borrow_mut();
                        let t = m.objs[id].cells[s];
                        m.g = t;
                        if let Some(t) = t {
                            m.objs[t as usize].buffered = false;
                        }
                        drop(m);
                        *c.g.borrow_mut() = Some(cl);
                        c.stats.borrow_mut().resurrections += 1;
                        if let Some(t) = t {
                            mark_resurrected(t);
                        }
                    }
                }
            }
        },
        FinScript::MoveCell0ToG => {
            if g_is_empty() {
                if let Ok(mut cell) = node.cells[0].try_borrow_mut() {
                    if let Some(child) = cell.take() {
                        let mut m = c.model.borrow_mut();
                        m.g = m.objs[id].cells[0].take();
                        let t = m.g;
                        drop(m);
                        *c.g.borrow_mut() = Some(child);
                        c.stats.borrow_mut().resurrections += 1;
                        if let Some(t) = t {
                            mark_resurrected(t);
                        }
                    }
                }
            }
        },
        FinScript::TakeCell0 | FinScript::TakeCell1 => {
            let s = if k == FinScript::TakeCell0 { 0 } else { 1 };
            let taken = node.cells[s].try_borrow_mut().ok().and_then(|mut cell| cell.take());
            if let Some(child) = taken {
                c.model.borrow_mut().objs[id].cells[s] = None;
                api_drop(child);
            }
        },
        FinScript::UpgradeWcellToG => {
            #[cfg(feature = "weak")]
            if g_is_empty() {
                let target = c.model.borrow().objs[id].wcell;
                if let (Ok(w), Some(target)) = (node.wcell.try_borrow(), target) {
                    if let Some(w) = w.as_ref() {
                        if let Some(cc) = checked_upgrade(w, target) {
                            if let WRef::Obj(t) = target {
                                c.model.borrow_mut().g = Some(t);
                            }
                            *c.g.borrow_mut() = Some(cc);
                            c.stats.borrow_mut().resurrections += 1;
                            if let WRef::Obj(t) = target {
                                mark_resurrected(t);
                            }
                        }
                    }
                }
            }
        },
        FinScript::UpgradeWcellIntoCell0 => {
            // Resurrection into the heap: the upgraded pointer is stored in a traced field of the object itself
            #[cfg(feature = "weak")]
            {
                let empty = node.cells[0].try_borrow().map_or(false, |cell| cell.is_none());
                let target = c.model.borrow().objs[id].wcell;
                if let (true, Ok(w), Some(target)) = (empty, node.wcell.try_borrow(), target) {
                    if let Some(w) = w.as_ref() {
                        if let Some(cc) = checked_upgrade(w, target) {
                            if let WRef::Obj(t) = target {
                                c.model.borrow_mut().objs[id].cells[0] = Some(t);
                            }
                            *node.cells[0].borrow_mut() = Some(cc);
                            c.stats.borrow_mut().resurrections += 1;
                        }
                    }
                }
            }
        },
        FinScript::AllocIntoCell1 => {
            let empty = node.cells[1].try_borrow().map_or(false, |cell| cell.is_none());
            if empty {
                if let Some((nid, cc)) = make_node(Some(true)) {
                    c.model.borrow_mut().objs[id].cells[1] = Some(nid);
                    *node.cells[1].borrow_mut() = Some(cc);
                }
            }
        },
        FinScript::AllocCycleAndDrop => {
            if let Some((nid, cc)) = make_node(Some(true)) {
                let cl = cc.clone();
                *cc.cells[0].borrow_mut() = Some(cl);
                {
                    let mut m = c.model.borrow_mut();
                    m.objs[nid as usize].cells[0] = Some(nid);
                }
                api_drop(cc);
            }
        },
        FinScript::Collect => do_collect(),
        FinScript::TryUnwrapG => script_try_unwrap_g("finalizer"),
        FinScript::FinalizeAgainG => script_finalize_again_g("finalizer"),
        FinScript::CollectThenTryUnwrapG => {
            do_collect();
            script_try_unwrap_g("finalizer (after a collect_cycles() call)");
        },
        FinScript::CollectThenFinalizeAgainG => {
            do_collect();
            script_finalize_again_g("finalizer (after a collect_cycles() call)");
        },
        FinScript::CollectThenAlloc => {
            // an object created in a finalizer AFTER a (possibly real) nested collection is still "created inside a finalizer"
            do_collect();
            if let Some((_nid, cc)) = make_node(Some(true)) {
                api_drop(cc);
            }
        },
        FinScript::NewCyclicIntoCell1 => {
            #[cfg(feature = "weak")]
            {
                let empty = node.cells[1].try_borrow().map_or(false, |cell| cell.is_none());
                if empty {
                    if let Some((nid, cc)) = make_cyclic_node(Some(true)) {
                        c.model.borrow_mut().objs[id].cells[1] = Some(nid);
                        *node.cells[1].borrow_mut() = Some(cc);
                    }
                }
            }
        },
        FinScript::TakeCell1ThenAlloc => script_take_cell1_then_alloc(node, true),
        FinScript::NewCyclicSaveWeakPanics => {
            #[cfg(feature = "weak")]
            script_new_cyclic_save_weak_panics();
        },
        FinScript::RegisterOnCell0 => {
            #[cfg(feature = "cleaners")]
            script_register_on_cell0(node);
        },
        FinScript::DropG => {
            let taken = c.g.borrow_mut().take();
            if let Some(cc) = taken {
                c.model.borrow_mut().g = None;
                api_drop(cc);
            }
        },
    }
}

fn run_drop_script(node: &Node) {
    let c = ctx();
    let id = node.id as usize;
    let k = DropScript::from_u8(node.drop_script.get());
    match k {
        DropScript::Nop => {},
        DropScript::UpgradeWcell => {
            #[cfg(feature = "weak")]
            {
                let target = c.model.borrow().objs[id].wcell;
                if let (Ok(w), Some(target)) = (node.wcell.try_borrow(), target) {
                    if let Some(w) = w.as_ref() {
                        if let Some(cc) = checked_upgrade(w, target) {
                            if g_is_empty() {
                                if let WRef::Obj(t) = target {
                                    c.model.borrow_mut().g = Some(t);
                                }
                                *c.g.borrow_mut() = Some(cc);
                            } else {
                                api_drop(cc);
                            }
                        }
                    }
                }
            }
            #[cfg(not(feature = "weak"))]
            let _ = id;
        },
        DropScript::Collect => do_collect(),
        DropScript::TryUnwrapG => script_try_unwrap_g("destructor"),
        DropScript::FinalizeAgainG => script_finalize_again_g("destructor"),
        DropScript::CollectThenTryUnwrapG => {
            do_collect();
            script_try_unwrap_g("destructor (after a collect_cycles() call)");
        },
        DropScript::CollectThenFinalizeAgainG => {
            do_collect();
            script_finalize_again_g("destructor (after a collect_cycles() call)");
        },
        DropScript::TakeCell1ThenAlloc => script_take_cell1_then_alloc(node, false),
        DropScript::CloneWcellToW0 => {
            // a destructor that clones the Weak in its own weak cell (which may point to the object being destroyed) and
            // keeps the clone in the weak variable w0: every Weak::clone is a Weak that exists and must be counted
            #[cfg(feature = "weak")]
            {
                let target = c.model.borrow().objs[id].wcell;
                if c.cfg.nw > 0 && c.wvars[0].borrow().is_none() && c.model.borrow().wvars[0].is_none() {
                    if let (Ok(w), Some(target)) = (node.wcell.try_borrow(), target) {
                        if let Some(w) = w.as_ref() {
                            let cl = w.clone();
                            *c.wvars[0].borrow_mut() = Some(cl);
                            c.model.borrow_mut().wvars[0] = Some(target);
                        }
                    }
                }
            }
            #[cfg(not(feature = "weak"))]
            let _ = id;
        },
        DropScript::NewCyclicSaveWeakPanics => {
            #[cfg(feature = "weak")]
            script_new_cyclic_save_weak_panics();
        },
    }
}

/// Releases the Cc in traced cell 1 (its target, if other Ccs to it exist, becomes a buffered object), creates two
/// garbage self-cycles (each is buffered when its handle is dropped) and then one more object: with a
/// buffered-objects threshold of 1 or 2 configured, that last creation is an allocation whose *buffered* trigger is
/// due - from inside a callback of a running collection it must still be a no-op.
fn script_take_cell1_then_alloc(node: &Node, in_finalizer: bool) {
    let c = ctx();
    let id = node.id as usize;
    let expect = if in_finalizer { Some(true) } else { None };
    let taken = node.cells[1].try_borrow_mut().ok().and_then(|mut cell| cell.take());
    if let Some(child) = taken {
        c.model.borrow_mut().objs[id].cells[1] = None;
        api_drop(child);
    }
    for _ in 0..2 {
        if let Some((nid, cc)) = make_node(expect) {
            let cl = cc.clone();
            *cc.cells[0].borrow_mut() = Some(cl);
            c.model.borrow_mut().objs[nid as usize].cells[0] = Some(nid);
            api_drop(cc);
        }
    }
    if let Some((_nid, cc)) = make_node(expect) {
        api_drop(cc);
    }
}

/// Drops a Cc handle (the model must already have released it)
fn api_drop(cc: Cc<Node>) {
    let c = ctx();
    let _f = FrameGuard::new(Frame::Api { collect_like: false, collecting: false });
    let depth = c.stack.borrow().len();
    let r = catch_unwind(AssertUnwindSafe(move || drop(cc)));
    if let Err(p) = r {
        unwind_fix_stack(depth);
        drop(_f);
        resume_unwind(p);
    }
    drop(_f);
    drain_alloc();
}

include!("world_ops.rs");
