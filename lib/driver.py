#!/usr/bin/env python3
"""Driver of the rust-cc model-checking checks: builds the harness configurations from /repo's working tree,
runs the runs planned for a property, isolates crashes, confirms violations by isolated replay, matches known
findings and writes /verif/evidence/<id>.json.

Exit codes: 0 property held on everything explored (known findings are printed, not failed),
            1 violation (one line `VIOLATION property=<id> replay=<path>` each),
            2 machinery error (never a verdict)."""
import hashlib
import json
import os
import re
import subprocess
import sys
import time

ROOT = os.path.dirname(os.path.dirname(os.path.abspath(__file__)))
# (VERIF_HARNESS / VERIF_BUILD: only for experiments against a scratch copy of the repository, see seeded/README)
HARNESS = os.environ.get("VERIF_HARNESS", os.path.join(ROOT, "harness"))
BUILD = os.environ.get("VERIF_BUILD", os.path.join(ROOT, ".build"))
# Evidence describes /repo itself: an experiment against a scratch copy (VERIF_BUILD set) writes its evidence next to its build
EVID = os.path.join(ROOT, "evidence") if "VERIF_BUILD" not in os.environ else os.path.join(BUILD, "evidence-scratch")
REPLAYS = os.path.join(ROOT, "replays")
KNOWN = os.path.join(ROOT, "known_findings.json")

CONFIGS = {
    # name: (cargo features of the harness crate, release?)
    "full-dbg": ("fin,auto,weak,cleaners", False),
    "full-rel": ("fin,auto,weak,cleaners", True),
    "nofin-rel": ("auto,weak,cleaners", True),
    "nofin-dbg": ("auto,weak,cleaners", False),
    "min-dbg": ("", False),
    "min-rel": ("", True),
    "pedantic-dbg": ("fin,auto,weak,cleaners,pedantic", False),
}


def env_offline():
    e = dict(os.environ)
    e["CARGO_NET_OFFLINE"] = "true"
    e.pop("RUSTFLAGS", None)
    return e


def build(cfg):
    feats, rel = CONFIGS[cfg]
    tdir = os.path.join(BUILD, cfg)
    cmd = ["cargo", "build", "--offline", "--no-default-features", "--features", feats, "--manifest-path", os.path.join(HARNESS, "Cargo.toml")]
    if rel:
        cmd.append("--release")
    e = env_offline()
    e["CARGO_TARGET_DIR"] = tdir
    t0 = time.time()
    p = subprocess.run(cmd, env=e, stdout=subprocess.PIPE, stderr=subprocess.STDOUT, text=True)
    if p.returncode != 0:
        sys.stdout.write(p.stdout[-6000:])
        print("MACHINERY-ERROR: build of configuration %s failed (the tree under /repo does not compile with the harness)" % cfg)
        sys.exit(2)
    return os.path.join(tdir, "release" if rel else "debug", "ccmc"), time.time() - t0


def load_known():
    if not os.path.exists(KNOWN):
        return []
    return json.load(open(KNOWN)).get("findings", [])


def match_known(prop, viol, known):
    """A violation is a known finding iff an *open* entry for the property names its predicate and every one of
    the entry's `match` substrings occurs in the message (digits are kept: entries name the call site)."""
    for k in known:
        if k.get("status") != "open" or k.get("property") != prop:
            continue
        if k.get("predicate") and k["predicate"] != viol.get("predicate"):
            continue
        if all(s in viol.get("message", "") for s in k.get("match", [])):
            return k
    return None


AFTER_FAULT_PREFIX = "after a caught callback panic: "


def relevant(prop, v):
    """A violation counts for the property being checked if it carries that property, is an unexpected panic /
    crash, or (for C07) happened after a caught callback panic."""
    return v["property"] in (prop, "ANY") or (prop == "C07" and v.get("message", "").startswith(AFTER_FAULT_PREFIX))


def run_bin(binpath, args, timeout):
    t0 = time.time()
    try:
        p = subprocess.run([binpath] + args, stdout=subprocess.PIPE, stderr=subprocess.PIPE, text=True, timeout=timeout)
        return p.returncode, p.stdout, p.stderr, time.time() - t0
    except subprocess.TimeoutExpired as ex:
        return 124, (ex.stdout or b"").decode() if isinstance(ex.stdout, bytes) else (ex.stdout or ""), "timeout", time.time() - t0


def replay(binpath, lens_args, history, timeout=120, sub="explore"):
    args = (["replay"] if sub == "explore" else [sub]) + lens_args + ["--history", history]
    rc, out, err, _ = run_bin(binpath, args, timeout)
    res = None
    for line in out.splitlines():
        line = line.strip()
        if line.startswith("{"):
            try:
                res = json.loads(line)
            except Exception:
                pass
    return rc, res, err


def write_replay(prop, cfg, lens_args, history, pretty, epilogue_pretty, violations, kind, sub="explore"):
    os.makedirs(REPLAYS, exist_ok=True)
    h = hashlib.sha1((cfg + " ".join(lens_args) + history).encode()).hexdigest()[:12]
    path = os.path.join(REPLAYS, "%s-%s.json" % (prop, h))
    json.dump({"property": prop, "config": cfg, "sub": sub, "lens_args": lens_args, "history": history, "history_pretty": pretty,
               "epilogue_pretty": epilogue_pretty, "violations": violations, "kind": kind,
               "how_to_replay": "./check %s --replay %s" % (prop, path)}, open(path, "w"), indent=1)
    return path


def strip_explore_only(args):
    """lens arguments only (what `ccmc replay` needs)"""
    drop = {"--depth", "--max-states", "--max-seconds", "--threads", "--seed", "--fresh", "--focus", "--out"}
    out, i = [], 0
    while i < len(args):
        if args[i] in drop:
            i += 2
            continue
        out.append(args[i])
        i += 1
    return out


class Outcome:
    def __init__(self):
        self.violations = []   # (replay path, message)
        self.known = []        # messages
        self.machinery = []
        self.runs = []         # per-run coverage dicts


def explore_run(prop, cfg, binpath, args, out, known, tier, seed, sub="explore"):
    """One exploration run of the model checker, with crash isolation."""
    os.makedirs(os.path.join(BUILD, "tmp"), exist_ok=True)
    outfile = os.path.join(BUILD, "tmp", "run-%d-%d.json" % (os.getpid(), len(out.runs)))
    full = [sub] + args + (["--focus", prop, "--seed", str(seed)] if sub == "explore" else []) + ["--out", outfile]
    if os.path.exists(outfile):
        os.remove(outfile)
    rc, so, se, wall = run_bin(binpath, full, timeout=6 * 3600)
    lens_args = strip_explore_only(args)
    if rc in (0, 1, 2) and os.path.exists(outfile):
        r = json.load(open(outfile))
        os.remove(outfile)
        r["config"] = cfg
        out.runs.append(r)
        for me in r.get("machinery_errors", []):
            out.machinery.append("%s %s: %s" % (cfg, " ".join(args), me))
        seen_sig = set()
        for f in r.get("found", []):
            vs = f["violations"]
            rel = [v for v in vs if relevant(prop, v)]
            if any(v["property"] == "MACHINERY" for v in vs):
                out.machinery.append("%s: %s" % (f["history_pretty"], vs))
                continue
            if not rel:
                continue
            v = rel[0]
            la = lens_args + (["--case", f["case"]] if "case" in f else [])
            sig = (v["predicate"], re.sub(r"\d+", "#", v["message"]))
            if sig in seen_sig:
                continue
            seen_sig.add(sig)
            # confirm by isolated replay, twice
            ok = 0
            for _ in range(2):
                rrc, rres, rerr = replay(binpath, la, f["history"], sub=sub)
                if rrc == 1 and (sub != "explore" or (rres and any(relevant(prop, x) for x in rres["violations"]))):
                    ok += 1
                elif rrc not in (0, 1):
                    ok += 1 if rrc == 70 else 0
            if ok < 2:
                out.machinery.append("violation not reproduced by isolated replay: %s | %s" % (f["history_pretty"], v["message"]))
                continue
            k = match_known(prop, v, known)
            msg = "%s [%s] %s | history: %s%s" % (v["predicate"], cfg, v["message"], f["history_pretty"], (" | then: " + f["epilogue_pretty"]) if f.get("epilogue_pretty") else "")
            if k:
                out.known.append("%s (%s)" % (k.get("id", "?"), msg))
            else:
                path = write_replay(prop, cfg, la, f["history"], f["history_pretty"], f.get("epilogue_pretty", ""), vs, "oracle", sub=sub)
                out.violations.append((path, msg))
        return
    # The explorer died: crash isolation
    inflight = [l[len("INFLIGHT "):].strip() for l in se.splitlines() if l.startswith("INFLIGHT ")]
    sig = [l for l in se.splitlines() if l.startswith("CCMC-FATAL-SIGNAL")]
    crashed = []
    for h in inflight:
        n = 0
        for _ in range(2):
            rrc, rres, rerr = replay(binpath, lens_args, h, sub=sub)
            if rrc not in (0, 1, 2):
                n += 1
            elif rrc == 1:
                n += 1
        if n == 2:
            crashed.append(h)
    out.runs.append({"config": cfg, "lens_args": " ".join(args), "states": 0, "transitions": 0, "executions": 0, "crashed": True, "fixpoint": False,
                     "cut_reason": "explorer process died (%s, exit %s)" % (" ".join(sig) or "no signal report", rc), "wall_s": wall, "samples": [], "vacuity": {}, "scope": {}})
    if not crashed:
        out.machinery.append("explorer died (exit %s, %s) and no in-flight history reproduces the crash: %s" % (rc, sig, se[-2000:]))
        return
    for h in crashed[:3]:
        rrc, rres, rerr = replay(binpath, lens_args, h)
        pretty = rres["history_pretty"] if rres else h
        v = {"property": "ANY", "predicate": "P-crash", "message": "the process crashes (memory error or abort) while executing this history"}
        if rres and rres.get("violations"):
            v = rres["violations"][0]
        k = match_known(prop, v, known)
        msg = "%s [%s] %s | history: %s" % (v["predicate"], cfg, v["message"], pretty)
        if k:
            out.known.append("%s (%s)" % (k.get("id", "?"), msg))
        else:
            path = write_replay(prop, cfg, lens_args, h, pretty, "", [v], "crash")
            out.violations.append((path, msg))


def aggregate_evidence(prop, tier, seed, out, wall, extra):
    os.makedirs(EVID, exist_ok=True)
    states = sum(r.get("states", 0) for r in out.runs)
    trans = sum(r.get("transitions", 0) for r in out.runs)
    execs = sum(r.get("executions", 0) for r in out.runs)
    samples = []
    for r in out.runs:
        for s in r.get("samples", [])[:2]:
            samples.append({"run": "%s %s" % (r.get("config"), r.get("lens_args", r.get("lens", ""))), "history": s})
    runs = []
    for r in out.runs:
        runs.append({
            "config": r.get("config"), "build": r.get("build"), "lens": r.get("lens"), "args": r.get("lens_args"), "scope": r.get("scope"),
            "states": r.get("states"), "transitions": r.get("transitions"), "fault_transitions": r.get("fault_transitions"),
            "fixpoint_reached": r.get("fixpoint"), "max_depth_completed": r.get("max_depth_completed"), "cut": r.get("cut_reason"),
            "states_with_nonempty_buffer": r.get("states_with_nonempty_buffer"), "states_by_buffered_objects_0_to_5plus": r.get("states_by_buffered_objects"), "double_replays_identical": r.get("double_replays"),
            "fresh_thread_conformance_checks": r.get("fresh_thread_checks"), "vacuity": r.get("vacuity"), "wall_s": r.get("wall_s"),
            "pruned_other_properties": [{"property": p["property"], "count": p["count"], "sample": p["sample"]["history_pretty"], "message": p["sample"]["violations"][0]["message"]} for p in r.get("pruned_other_properties", [])],
        })
    cov = {
        "states": max(states, 0), "transitions": max(trans, 0),
        "traces_validated_against_impl": execs + sum((r.get("double_replays") or 0) + (r.get("fresh_thread_checks") or 0) for r in out.runs),
        "samples": samples[:12] or ["<no run completed>"],
        "exhaustive": bool(out.runs) and all(r.get("fixpoint") for r in out.runs),
        "explanation": "Explicit-state breadth-first search whose transitions are real API calls executed on the real crate (history replay); every transition is an implementation execution, so model traces validated against the implementation = all of them, plus double replays (determinism) and fresh-thread replays (reset hook conformance). 'exhaustive' is true only if every run reached its fixpoint (all reachable states of its scope); runs cut by a depth bound are listed with the deepest fully expanded level.",
        "runs": runs,
        "known_findings_seen": out.known,
    }
    cov.update(extra or {})
    ev = {
        "property_id": prop, "tier": tier, "seed": seed, "level": "model_checking", "coverage": cov,
        "assumptions": [
            "scope bounds listed per run (objects ever created, handle variables, fields, faults, depth)",
            "collector state of a worker thread is reset between replays through the verif-hooks reset (validated against fresh threads on a sample of states)",
            "hidden per-object collector words enter the state key through read-only hooks; verdicts come from public API results, payload callbacks and the instrumented allocator",
        ],
        "wall_s": round(wall, 3), "violations": len(out.violations),
    }
    json.dump(ev, open(os.path.join(EVID, prop + ".json"), "w"), indent=1)
    # the last run of each tier is also kept side by side (evidence/<id>.json is whichever tier ran last)
    os.makedirs(os.path.join(EVID, tier), exist_ok=True)
    json.dump(ev, open(os.path.join(EVID, tier, prop + ".json"), "w"), indent=1)


def finish(prop, out):
    for m in out.known:
        print("KNOWN-FINDING: property=%s %s" % (prop, m))
    if out.machinery:
        for m in out.machinery[:10]:
            print("MACHINERY-ERROR: %s" % m)
        sys.exit(2)
    if out.violations:
        for path, msg in out.violations:
            print("VIOLATION property=%s replay=%s" % (prop, path))
            print("  " + msg)
        sys.exit(1)
    print("OK property=%s" % prop)
    sys.exit(0)
