#!/usr/bin/env python3
"""Regenerates /verif/MANIFEST.json from the table below (kept in one place so it stays valid)."""
import json
import os

ROOT = os.path.dirname(os.path.dirname(os.path.abspath(__file__)))

MC = "explicit-state model checking of the implementation (BFS by history replay on the real crate, canonical state key from read-only hooks, reference model + instrumented allocator as oracle)"

CHECKS = {
    "C01": dict(engine="ccmc-explorer", design="§4 C01", technique=MC,
                text="Every reachable state of the stated small scopes (N=2 objects/V=3 handles to fixpoint in 3 feature configurations, N=3 to a depth bound; thorough: N=3 to fixpoint, 14.5 M states) gets every API operation applied; after each one all objects reachable through real pointers are dereferenced, compared with the model and with the allocator's live set. Histories, not graph shapes, are what the 63 tests cannot vary.",
                note="Bounded scopes (objects, handles, fields, depth where not fixpoint); payload callbacks obey the Trace contract; hooks only feed the state key and failure localisation."),
    "C02": dict(engine="ccmc-explorer", design="§4 C02", technique=MC,
                text="Same exploration as C01 with the completeness predicate: after every quiescent collect_cycles() and in an epilogue probe run on every explored state (drop all handles, collect until no callback runs) the set of unreachable, un-pinned objects must be empty and allocated_bytes() must equal the allocator's live managed bytes.",
                note="Must-reclaim set computed by a reference reachability model (pinned = reachable through an untraced field of an unreclaimed object); nofin build explored separately because collect() is single-pass there."),
    "C03": dict(engine="ccmc-explorer+ccmc-mini", design="§4 C03", technique=MC + "; plus enumeration of all operation histories up to a depth for each payload type of a (size, align) grid",
                text="The instrumented global allocator judges every dealloc (known block, not yet freed, identical size and align) and quarantines freed blocks; Drop callbacks are counted per object; dropped-implies-freed-before-return is checked after every operation of every explored history, including weak side records, try_unwrap and the new_cyclic panic path.",
                note="Layouts: a grid (alignments 1..4096 x sizes 0..4096+, 20 types in quick, 182 in thorough), not all combinations; freed blocks are quarantined per execution so reuse cannot hide a double free."),
    "C04": dict(engine="ccmc-explorer", design="§4 C04", technique=MC,
                text="After every operation of every explored history strong_count() of every reachable object must equal the model's handle count, and an object whose count reached 0 must have been finalized, dropped and freed before the call returned (recursively) - whatever buffering/marking earlier collections left behind.",
                note="After a caught callback panic only '>=' is demanded (the statement permits leaks), and only inside C07's runs."),
    "C05": dict(engine="ccmc-explorer", design="§4 C05", technique=MC,
                text="Finalizer/destructor script lens: every finalize callback is judged in lock-step against the model (not reachable when the finalization batch began or not reachable now, flag not already set, everything it can reach undropped), every drop requires a prior finalize, objects created in finalizers must report already_finalized(); the nofin build must never call finalize.",
                note="Finalizer behaviours come from a finite script menu (clone/move a field into a global, release fields, allocate, collect, try_unwrap, finalize_again, upgrade a weak)."),
    "C06": dict(engine="ccmc-explorer+chain", design="§4 C06", technique=MC + "; plus exhaustive enumeration of a deep-chain family (behaviour x length x pops-per-finalizer) for the 10-pass cap and termination",
                text="Resurrecting scripts (clone / move / weak upgrade into a global) x every collector order reachable in scope; survivors must stay intact, the rest must be reclaimed by this or the epilogue's collections, no second finalization, <=10 tracing passes per collect_cycles(), callback budget turns non-termination into a violation.",
                note="Scope N<=3 for the state space; chain family: 3 behaviours (pop k handles, create k garbage cycles, cut the chain) x n<=24 (thorough 40) x k<=3."),
    "C07": dict(engine="ccmc-explorer", design="§4 C07", technique=MC + " with fault forking: one successor per callback crash point (trace: before/between/after fields; finalize: before/after; drop; action; closure), up to 2 successive faults",
                text="Crash-point enumeration in the crash-consistency style: for every operation of every explored history and every callback crash point it passes, the panic is injected, must surface as the injected payload, must leave is_tracing()==false and the flags idle, and the exploration continues from the damaged state with all safety predicates (C01/C03/C05/C08) still evaluated; objects unreachable at the time of the panic may leak.",
                note="At most 2 faults per history; objects existing at fault time may keep a count that is too high (permitted leak)."),
    "C08": dict(engine="ccmc-explorer", design="§4 C08", technique=MC,
                text="Weak lens: every upgrade (top level, finalizer, destructor, cleaning action) is judged before the call: must be None for dropped / moved-out / released / Weak::new / inside-new_cyclic targets, must be Some for alive targets when no destructor is on the stack; a Some result is identity- and allocator-checked and stored, so a later drop of it is a C01 violation.",
                note="Inside destructor contexts only safety is demanded (the crate may answer None conservatively)."),
    "C09": dict(engine="ccmc-explorer", design="§4 C09", technique=MC,
                text="After every operation Cc::weak_count, Weak::weak_count and Weak::strong_count are compared with the model's handle counts for every handle, and the side record block (identified through the allocation observer) must be live iff the box is live or a Weak exists, freed exactly once.",
                note="One object's weak life-cycle explored to fixpoint (N=1, W=3); N=2 depth-bounded in quick."),
    "C10": dict(engine="ccmc-explorer", design="§4 C10", technique=MC,
                text="Cleaner lens: actions count their runs (<=1 always; ==1 after a top-level clean() returned, and when the owner's drop glue has ended with no clean() of that cleaner on the stack); dropping a Cleanable must run nothing; actions upgrade weaks / drop captured Ccs / allocate / re-enter clean() under the C08/C01 oracles.",
                note="<=3 actions per history, action menu of 7 behaviours."),
    "C11": dict(engine="ccmc-explorer", design="§4 C11", technique=MC,
                text="After every operation: allocated_bytes() == allocator's live managed bytes; buffered_objects_count() == length of the walked buffer, links consistent, all buffered marked, none released, no duplicates; exact buffered set == model prediction (core lens, Nop finalizers); executions_count delta == 1 per started collection.",
                note="Buffer walk needs the read-only hook (the property says so)."),
    "C12": dict(engine="ccmc-explorer", design="§4 C12", technique=MC,
                text="is_tracing() sampled inside every callback of every explored history; collect_cycles()/Cc::new issued from callbacks of a running collection must not change executions_count, issued from callbacks of a plain Cc::drop must start exactly one collection whose trace calls see is_tracing()==true; try_unwrap / finalize_again from finalizers and destructors must fail and leave the object unchanged.",
                note="Whether a collection is running is derived from the harness's own call stack, not from the crate's flags."),
    "C13": dict(engine="ccmc-explorer", design="§4 C13", technique=MC,
                text="TryUnwrap applied in every explored state (buffered or not, finalized or not, with/without weaks, new/new_cyclic): Ok iff strong_count()==1 sampled before; on Ok no callback ran, value intact, box freed, not buffered, weaks dead; on Err same pointer and header words unchanged.",
                note="In-callback refusal is checked by C12's scripts."),
    "C14": dict(engine="ccmc-explorer", design="§4 C14", technique=MC + " with fault forking on the callbacks of the collection new_cyclic may start and on the closure",
                text="NewCyclic with a closure menu from every explored state with automatic collection on: inside the closure strong_count 0 / upgrade None / weak_count 1; afterwards strong 1 and saved weaks upgrade; on a panic no callback ever sees a never-constructed value (canary + home-address seal), box and side record are released, saved weaks stay dead.",
                note="Closure menu of 7 behaviours; N<=3."),
    "C15": dict(engine="ccmc-policy", design="§4 C15", technique="explicit-state model checking of the real trigger/threshold code: BFS over allocation / release / garbage / configuration workloads with a 10-line reference policy as oracle",
                text="State = (allocated bytes, byte threshold via hook, buffered count, auto_collect, adjustment_percent, buffered threshold, multiset of live blobs, pending garbage); every Cc creation's executions_count delta must equal auto && (bytes > threshold || buffered > buffered threshold) computed from observables sampled before the call; after every collection the threshold must be 100*2^k, above allocated bytes, and not needlessly high for the configured percent.",
                note="Finite menus: 6 blob sizes (1..3000 bytes), 7 percentages incl. 0, 1e-9 and 1, buffered thresholds None/1/2, <=3 live blobs and <=4 objects in quick."),
    "C16": dict(engine="ccmc-explorer", design="§4 C16", technique=MC + " (macro-operations park clones up to MAX-k, then every operation sequence up to the depth bound is explored around the boundary)",
                text="At MAX-k..MAX for both counters: clone/upgrade/downgrade/Weak::clone at the limit must panic with strong_count, weak_count, already_finalized and both header words unchanged; the object must still be reclaimed once (finalize once, drop once, free once) by the epilogue.",
                note="Only the neighbourhood of the limits is branched on."),
    "C17": dict(engine="ccmc-probes+ccmc-mini", design="§4 C17", technique="bounded-exhaustive enumeration of container instances with counting probe leaves driven by real collections (per trace invocation), plus explicit enumeration of all operation histories up to a depth for one payload type per (container kind, position)",
                text="(a) Probe grid: tuples 1..12, arrays 0..32, Vec/boxed slices 0..8, Box, Option Some/None, Result Ok/Err, RefCell free/borrowed/mutably borrowed, ManuallyDrop, AssertUnwindSafe, PhantomData, Weak, Cleaner, Cleanable and all 12x12 two-level nestings: every probe present must be reported exactly once per Trace::trace invocation made by a real collection, and Finalize must forward exactly once. (b) For 131 (container, position) payload types the mini explorer enumerates every history over {new, dup, drop, link, unlink, collect, try_unwrap}: a skipped position leaves a cycle unreclaimed, a doubly reported one destroys a live object.",
                note="Positions: all tuple positions; arrays/Vec at first/middle/last of selected lengths; 20 nestings in (b), 144 in (a)."),
    "C18": dict(engine="derive-check", design="§4 C18", technique="bounded-exhaustive enumeration of generated type definitions compiled against /repo/derive and executed with counting probes; compile probes for the Drop emission judged from rustc's JSON diagnostics",
                text="Structs: unit, tuple and named with 0..8 fields x every ignore mask (quick: all masks up to 4 fields, selected masks beyond), generic structs and enums, ignored fields of non-Trace types; enums: every sequence of 1..2 (thorough: 1..4, 4680 enums) variants from a menu of 8 variant shapes, every variant instantiated. Each field's probe must be visited exactly once per trace invocation iff neither it nor its variant is ignored; derived Finalize must call nothing. 9 type kinds with a user Drop must each be rejected with E0119; with unsafe_no_drop they must compile and run their Drop.",
                note="Enumeration of an input space (no state space); field types cycle through 5 container shapes."),
    "C19": dict(engine="ccmc-interleave+teardown+parallel", design="§4 C19", technique="exhaustive enumeration of all API-call-granular interleavings of small per-thread programs on real OS threads under a baton scheduler, compared step by step with each program's solo run; exhaustive enumeration of a thread-teardown scenario matrix (one process each); parallel-vs-isolated differential of the state-space explorer",
                text="(a) 10 per-thread programs hitting the buffer, the counters and the configuration: all 70 interleavings of every program pair (4+4 calls) and all interleavings of selected triples, each thread's canonical state key (every hidden collector word, counters, configuration, executions_count) after every step must equal its solo run; 4..16 threads on round-robin schedules and rotations. (b) 2 destruction orders x 10 object situations x {passive, collecting+allocating} user thread-local destructor x {spawned, main} thread, each in its own process: exit status 0, no double drop, no callback on freed memory. (c) 16 explorer workers run independent worlds concurrently: a violation of any oracle that an isolated replay does not reproduce is cross-thread interference.",
                note="Preemption only between API calls (the crate has no synchronisation operation at which an outcome could differ); 4+ threads are listed schedules, not exhaustive; thread-local destructor order as implemented by this std on Linux."),
    "C20": dict(engine="ccmc-explorer+ccmc-mini+fwd", design="§4 C20", technique=MC + " for address stability/ptr_eq; layout grid through the mini explorer; exhaustive enumeration of ordered value pairs for the forwarding impls",
                text="Every walk re-derives each reachable object's address through Deref, AsRef and Borrow and compares it with the address sealed at creation, the box range and the alignment; ptr_eq is compared with model identity for all handle pairs; the same on a grid of (size, align) payload types incl. zero-sized over-aligned ones; eq ne lt le gt ge partial_cmp cmp max min hash Debug Display Default on Cc<T> vs T for all ordered pairs of small complete value sets (f64 incl. NaN, +-0, +-inf), both for distinct allocations and for a pointer and its own clone.",
                note="Layouts: a grid (13 alignments x up to 14 size points), not all combinations; value sets are small."),
}


def main():
    props = [json.loads(l) for l in open(os.path.join(ROOT, "properties.jsonl"))]
    checks = []
    na = []
    for p in props:
        pid = p["id"]
        c = CHECKS.get(pid)
        if not c:
            na.append({"property_id": pid, "reason": "check not built yet (implementation in progress); model checking applies, see DESIGN.md section 4"})
            continue
        checks.append({
            "property_id": pid,
            "quick_cmd": "./check %s --tier quick" % pid,
            "thorough_cmd": "./check %s --tier thorough" % pid,
            "evidence_file": "/verif/evidence/%s.json" % pid,
            "replay_cmd_template": "./check %s --replay {path}" % pid,
            "engine": c["engine"],
            "level_claimed": {"category": "model_checking", "text": c["text"], "design_ref": c["design"]},
            "level_note": c["note"],
            "technique": c["technique"],
        })
    m = {
        "version": 1,
        "setup_cmd": "python3 lib/setup.py",
        "hooks": {
            "guard": "cargo feature `verif-hooks` of rust-cc (off by default)",
            "enable": "the harness crate /verif/harness depends on /repo with features [std, derive, verif-hooks] + the configuration's own features; `./check` runs `cargo build --offline` per configuration into /verif/.build/<cfg>",
            "baseline_off_cmd": "cd /repo && cargo test --workspace --no-fail-fast --offline",
            "source_commits": ["30a0711", "8ae381a"],
            "add_only": True,
        },
        "engines": [
            {"name": "ccmc-mini", "path": "harness/src/mini.rs, grid.rs, containers_gen.rs (generated by harness/gen/gen_containers.py)", "serves_properties": ["C03", "C13", "C17", "C20"], "kind_free_text": "enumeration of all operation histories up to a depth, generic over the payload type (layout grid, container positions)"},
            {"name": "ccmc-probes", "path": "harness/src/containers.rs", "serves_properties": ["C17"], "kind_free_text": "probe grid over the built-in Trace/Finalize impls"},
            {"name": "fwd", "path": "harness/src/fwd.rs", "serves_properties": ["C20"], "kind_free_text": "all ordered value pairs for the forwarding trait impls"},
            {"name": "derive-check", "path": "lib/gen_derive.py, derive_check/", "serves_properties": ["C18"], "kind_free_text": "generated type definitions compiled against /repo/derive"},
            {"name": "ccmc-interleave+teardown+parallel", "path": "harness/src/threads.rs, lib/engines.py", "serves_properties": ["C19"], "kind_free_text": "all interleavings under a baton scheduler; teardown scenario matrix in subprocesses; parallel-vs-isolated differential"},
            {"name": "chain", "path": "harness/src/chain.rs", "serves_properties": ["C06"], "kind_free_text": "deep-chain family: finalizers that keep releasing / creating objects, 10-pass cap, termination"},
            {"name": "mixed", "path": "harness/src/mixed.rs", "serves_properties": ["C03"], "kind_free_text": "two payload types of different alignment under one collector with automatic collections on: all histories to a depth over new A / new B / garbage / drop / collect for every ordered pair of six layout classes; oracle = instrumented allocator (layout of every release), drop counters, allocated_bytes"},
            {"name": "rcchain", "path": "harness/src/chain.rs (run_rc)", "serves_properties": ["C04"], "kind_free_text": "chains of solely-owned objects of every length up to a bound (plus powers of two and their neighbours) x link kind x buffering pattern x earlier collection: dropping the head releases everything before the drop returns"},
            {"name": "ccmc-policy", "path": "harness/src/policy.rs, harness/src/bfs.rs", "serves_properties": ["C15"], "kind_free_text": "explicit-state BFS over the real auto-collect policy with a reference policy oracle"},
            {"name": "ccmc-explorer", "path": "harness/src (explore.rs, world.rs, world_ops.rs, alloc.rs, lens.rs)", "serves_properties": sorted(k for k, v in CHECKS.items() if "ccmc-explorer" in v["engine"]), "kind_free_text": "explicit-state BFS over the real crate by history replay; fault forking; crash isolation"},
        ],
        "checks": checks,
        "not_applicable": na,
        "notes": "Genuine defects found and repaired: see known_findings.json (F1-F5, five `fix:` commits in /repo: 0e5f454, 9626c3f, 511db79, c29ee66, 0443e95). DESIGN.md records which seeded changes each check catches.",
    }
    json.dump(m, open(os.path.join(ROOT, "MANIFEST.json"), "w"), indent=1)


if __name__ == "__main__":
    main()
