#!/usr/bin/env python3
"""Builds every harness configuration once (offline), so that later checks only rebuild what changed in /repo."""
import os
import sys
import time

sys.path.insert(0, os.path.dirname(os.path.abspath(__file__)))
import driver  # noqa: E402

if __name__ == "__main__":
    t0 = time.time()
    for cfg in driver.CONFIGS:
        path, dt = driver.build(cfg)
        print("built %-13s in %5.1fs -> %s" % (cfg, dt, path))
    try:
        import engines
        for fn in getattr(engines, "SETUP", []):
            fn()
    except Exception as ex:  # engines that need no setup
        print("engine setup:", ex)
    print("setup done in %.1fs" % (time.time() - t0))
