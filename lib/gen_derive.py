#!/usr/bin/env python3
"""Generates the derive(Trace)/derive(Finalize) check crate for property C18: a bounded-exhaustive enumeration of
type definitions (structs: unit / tuple / named with 0..8 fields x every ignore mask; generic structs; enums with
1..K variants drawn from a menu of 8 variant shapes), each instantiated with probe leaves that count trace calls.
usage: gen_derive.py <out_dir> <quick|thorough>"""
import itertools
import os
import sys

FIELD_TYPES = [
    ("Probe", "Probe({k})", 1),
    ("Vec<Probe>", "vec![Probe({k}), Probe({k1})]", 2),
    ("Option<Probe>", "Some(Probe({k}))", 1),
    ("(Probe, Probe)", "(Probe({k}), Probe({k1}))", 2),
    ("Box<Probe>", "Box::new(Probe({k}))", 1),
]


class Gen:
    def __init__(self):
        self.types = []   # source of type definitions
        self.checks = []  # source of check calls
        self.ntypes = 0
        self.nvalues = 0

    def field(self, pos, k):
        """returns (type, expr, nprobes) for a field at position pos starting at probe id k"""
        ty, ex, n = FIELD_TYPES[pos % len(FIELD_TYPES)]
        return ty, ex.format(k=k, k1=k + 1), n

    # How the ignore attribute is written next to other attributes of the same field / variant, and what the fields
    # that are NOT ignored carry (an unrelated attribute must neither hide nor cause an ignore)
    STYLES = [
        ("#[rust_cc(ignore)] ", ""),
        ("#[rust_cc(ignore)] #[allow(dead_code)] ", "#[allow(dead_code)] "),
        ("#[allow(dead_code)] #[rust_cc(ignore)] ", "#[cfg(all())] "),
        ("#[rust_cc(ignore)]\n    /// documented after the attribute\n    ", "/// documented\n    "),
        ("/// documented before the attribute\n    #[rust_cc(ignore)] ", "#[doc = \"x\"] #[allow(dead_code)] "),
        ("#[rust_cc(ignore)] #[cfg(all())] #[allow(dead_code)] ", ""),
    ]

    def struct(self, name, kind, nfields, mask, generics=None, style=0):
        """kind: 'unit' | 'tuple' | 'named'; mask bit i = field i ignored"""
        self.ntypes += 1
        fields, exprs, expect = [], [], []
        k = 0
        for i in range(nfields):
            ty, ex, n = self.field(i, k)
            ign = (mask >> i) & 1
            attr = self.STYLES[style][0] if ign else self.STYLES[style][1]
            if kind == "named":
                fields.append(f"{attr}f{i}: {ty}")
                exprs.append(f"f{i}: {ex}")
            else:
                fields.append(f"{attr}{ty}")
                exprs.append(ex)
            expect += [0 if ign else 1] * n
            k += n
        if kind == "unit":
            body, val = ";", name
        elif kind == "tuple":
            body, val = "(" + ", ".join(fields) + ");", f"{name}(" + ", ".join(exprs) + ")"
        else:
            body, val = " { " + ", ".join(fields) + " }", f"{name} {{ " + ", ".join(exprs) + " }"
        self.types.append(f"#[derive(Trace, Finalize)]\n#[allow(dead_code)]\nstruct {name}{body}\n")
        self.value(name, val, expect)

    def value(self, label, val, expect):
        self.nvalues += 1
        self.checks.append(f"    judge(\"{label}\", {val}, &{expect!r}, &mut st);\n")

    VARIANTS = [
        # (suffix, decl template, value template, nfields, per-field ignore flags, variant ignored)
        ("U", "{v}", "{t}::{v}", 0, [], False),
        ("T1", "{v}({f0})", "{t}::{v}({e0})", 1, [0], False),
        ("T2", "{v}({f0}, {f1})", "{t}::{v}({e0}, {e1})", 2, [0, 0], False),
        ("N1", "{v} {{ a: {f0} }}", "{t}::{v} {{ a: {e0} }}", 1, [0], False),
        ("N2", "{v} {{ a: {f0}, b: {f1} }}", "{t}::{v} {{ a: {e0}, b: {e1} }}", 2, [0, 0], False),
        ("T2i", "{v}({f0}, #[rust_cc(ignore)] {f1})", "{t}::{v}({e0}, {e1})", 2, [0, 1], False),
        ("N2i", "{v} {{ #[rust_cc(ignore)] a: {f0}, b: {f1} }}", "{t}::{v} {{ a: {e0}, b: {e1} }}", 2, [1, 0], False),
        ("IGN", "#[rust_cc(ignore)] {v}({f0}, {f1})", "{t}::{v}({e0}, {e1})", 2, [0, 0], True),
        # the same with other attributes around the rust_cc one (only combined with the shapes above, see main)
        ("T2j", "{v}({f0}, #[rust_cc(ignore)] #[allow(dead_code)] {f1})", "{t}::{v}({e0}, {e1})", 2, [0, 1], False),
        ("N2j", "{v} {{ #[rust_cc(ignore)]\n    /// doc after\n    a: {f0}, #[allow(dead_code)] b: {f1} }}", "{t}::{v} {{ a: {e0}, b: {e1} }}", 2, [1, 0], False),
        ("IGNj", "#[rust_cc(ignore)] #[allow(dead_code)] {v}({f0}, {f1})", "{t}::{v}({e0}, {e1})", 2, [0, 0], True),
        ("IGNd", "#[rust_cc(ignore)]\n    /// doc after\n    {v}({f0}, {f1})", "{t}::{v}({e0}, {e1})", 2, [0, 0], True),
        ("T2k", "#[allow(dead_code)] {v}(#[cfg(all())] {f0}, /// doc\n    {f1})", "{t}::{v}({e0}, {e1})", 2, [0, 0], False),
    ]
    NBASE = 8

    def enum(self, name, shape):
        self.ntypes += 1
        decls, vals = [], []
        for vi, si in enumerate(shape):
            suffix, dt, vt, nf, ign, vign = self.VARIANTS[si]
            vname = f"V{vi}{suffix}"
            fs, es, expect = {}, {}, []
            k = 0
            for i in range(nf):
                ty, ex, n = self.field(i + vi, k)
                fs[f"f{i}"], es[f"e{i}"] = ty, ex
                expect += [0 if (ign[i] or vign) else 1] * n
                k += n
            decls.append(dt.format(v=vname, **fs))
            vals.append((f"{name}::{vname}", vt.format(t=name, v=vname, **es), expect))
        self.types.append(f"#[derive(Trace, Finalize)]\n#[allow(dead_code)]\nenum {name} {{ " + ", ".join(decls) + " }\n")
        for label, val, expect in vals:
            self.value(label, val, expect)


def main():
    out_dir, tier = sys.argv[1], sys.argv[2]
    g = Gen()
    g.struct("SUnit", "unit", 0, 0)
    maxf_all = 4 if tier == "quick" else 8
    for kind in ("tuple", "named"):
        for n in range(0, 9):
            if n <= maxf_all:
                masks = range(1 << n)
            else:
                masks = sorted(set([0, 1, 1 << (n - 1), (1 << n) - 1, 0b10101010 & ((1 << n) - 1), 1 << (n // 2)]))
            for m in masks:
                g.struct(f"S{kind[0].upper()}{n}M{m}", kind, n, m)
    # generic structs
    g.types.append("#[derive(Trace, Finalize)]\n#[allow(dead_code)]\nstruct G1<T> { a: T, b: Probe }\n")
    g.value("G1<Probe>", "G1 { a: Probe(0), b: Probe(1) }", [1, 1])
    g.value("G1<Vec<Probe>>", "G1 { a: vec![Probe(0), Probe(1)], b: Probe(2) }", [1, 1, 1])
    g.types.append("#[derive(Trace, Finalize)]\n#[allow(dead_code)]\nstruct G2<T, U>(T, #[rust_cc(ignore)] U, T);\n")
    g.value("G2<Probe, Probe>", "G2(Probe(0), Probe(1), Probe(2))", [1, 0, 1])
    g.value("G2<Option<Probe>, NoTrace>", "G2(Some(Probe(0)), NoTrace(1), None)", [1])
    g.types.append("#[derive(Trace, Finalize)]\n#[allow(dead_code)]\nenum GE<T, U> { A(T), #[rust_cc(ignore)] B(U), C { x: T, #[rust_cc(ignore)] y: U } }\n")
    g.value("GE::A", "GE::<Probe, Probe>::A(Probe(0))", [1])
    g.value("GE::B", "GE::<Probe, Probe>::B(Probe(0))", [0])
    g.value("GE::C", "GE::<Probe, NoTrace>::C { x: Probe(0), y: NoTrace(5) }", [1])
    g.ntypes += 3
    # ignored fields need not implement Trace
    g.types.append("#[derive(Trace, Finalize)]\n#[allow(dead_code)]\nstruct SNoTrace { a: Probe, #[rust_cc(ignore)] b: NoTrace, c: Probe }\n")
    g.value("SNoTrace", "SNoTrace { a: Probe(0), b: NoTrace(9), c: Probe(1) }", [1, 1])
    g.ntypes += 1
    # attribute placement: every style x every ignore mask on small structs
    for style in range(1, len(Gen.STYLES)):
        for kind in ("tuple", "named"):
            for n in range(1, 4 if tier == "quick" else 5):
                for m in range(1 << n):
                    g.struct(f"A{style}{kind[0].upper()}{n}M{m}", kind, n, m, style=style)
    # unusual declarations: where-clauses, defaults, const generics, lifetimes, type parameters used only in ignored
    # fields, field names that could collide with the generated code, raw identifiers, explicit discriminants,
    # more fields than the largest tuple impl
    D = "#[derive(Trace, Finalize)]\n#[allow(dead_code)]\n"
    g.types.append(D + "struct GW<T> where T: Trace + 'static { a: T, b: Probe }\n")
    g.value("GW<Probe> (where clause)", "GW { a: Probe(0), b: Probe(1) }", [1, 1])
    g.types.append(D + "struct GDef<T = Probe> { a: T, b: Probe }\n")
    g.value("GDef (default type parameter)", "GDef::<Probe> { a: Probe(0), b: Probe(1) }", [1, 1])
    g.types.append(D + "struct GConst<const N: usize> { a: [Probe; N], b: Probe }\n")
    g.value("GConst<2> (const generic)", "GConst::<2> { a: [Probe(0), Probe(1)], b: Probe(2) }", [1, 1, 1])
    g.value("GConst<0>", "GConst::<0> { a: [], b: Probe(0) }", [1])
    g.types.append("static ZERO: u8 = 0;\n" + D + "struct GLife<'a> { #[rust_cc(ignore)] r: &'a u8, b: Probe, c: Probe }\n")
    g.value("GLife<'static> (lifetime parameter)", "GLife { r: &ZERO, b: Probe(0), c: Probe(1) }", [1, 1])
    g.types.append(D + "struct GMixed<'a, T: Trace + 'static, const N: usize> where T: Finalize { #[rust_cc(ignore)] r: &'a u8, a: [T; N], b: Probe }\n")
    g.value("GMixed (lifetime + type + const + where)", "GMixed::<Probe, 2> { r: &ZERO, a: [Probe(0), Probe(1)], b: Probe(2) }", [1, 1, 1])
    g.types.append(D + "struct FNames { ctx: Probe, __binding_0: Probe, r#type: Probe, self_: Probe, state: Probe }\n")
    g.value("FNames (field names ctx / __binding_0 / r#type)", "FNames { ctx: Probe(0), __binding_0: Probe(1), r#type: Probe(2), self_: Probe(3), state: Probe(4) }", [1, 1, 1, 1, 1])
    g.types.append(D + "#[repr(u8)]\nenum EDisc { A(Probe) = 3, B { x: Probe, #[rust_cc(ignore)] y: Probe } = 9, C = 200 }\n")
    g.value("EDisc::A (explicit discriminants)", "EDisc::A(Probe(0))", [1])
    g.value("EDisc::B", "EDisc::B { x: Probe(0), y: Probe(1) }", [1, 0])
    g.value("EDisc::C", "EDisc::C", [])
    g.types.append(D + "enum GEW<T, U> where T: Trace + 'static, U: 'static { A(T, #[rust_cc(ignore)] U), B { t: T, p: Probe } }\n")
    g.value("GEW::A (generic enum with where clause)", "GEW::<Probe, NoTrace>::A(Probe(0), NoTrace(1))", [1])
    g.value("GEW::B", "GEW::<Vec<Probe>, NoTrace>::B { t: vec![Probe(0), Probe(1)], p: Probe(2) }", [1, 1, 1])
    n16 = 16
    g.types.append(D + "struct T16(" + ", ".join(["Probe"] * n16) + ");\n")
    g.value("T16 (16 tuple fields)", "T16(" + ", ".join(f"Probe({i})" for i in range(n16)) + ")", [1] * n16)
    g.types.append(D + "struct N20 { " + ", ".join(f"f{i}: Probe" for i in range(20)) + " }\n")
    g.value("N20 (20 named fields)", "N20 { " + ", ".join(f"f{i}: Probe({i})" for i in range(20)) + " }", [1] * 20)
    g.ntypes += 11
    # enums
    maxv = 2 if tier == "quick" else 4
    nshapes = Gen.NBASE
    ei = 0
    for extra in range(Gen.NBASE, len(Gen.VARIANTS)):
        g.enum(f"EA{extra}", (extra,))
        for base in range(Gen.NBASE):
            g.enum(f"EA{extra}x{base}", (extra, base))
            g.enum(f"EA{base}x{extra}", (base, extra))
    for nv in range(1, maxv + 1):
        for shape in itertools.product(range(nshapes), repeat=nv):
            g.enum(f"E{ei}", shape)
            ei += 1
    # split check calls into functions of 200 (keeps rustc's per-function work small)
    chunks = [g.checks[i:i + 200] for i in range(0, len(g.checks), 200)]
    fns = ""
    for i, ch in enumerate(chunks):
        fns += f"#[inline(never)]\nfn checks_{i}(st: &mut Stats) {{\n" + "".join(ch).replace("&mut st", "st") + "}\n"
    calls = "".join(f"    checks_{i}(&mut st);\n" for i in range(len(chunks)))
    os.makedirs(os.path.join(out_dir, "src"), exist_ok=True)
    tmpl = open(os.path.join(os.path.dirname(os.path.abspath(__file__)), "..", "derive_check", "main.rs.in")).read()
    src = tmpl.replace("//@TYPES@", "".join(g.types)).replace("//@FNS@", fns).replace("//@CALLS@", calls).replace("@NTYPES@", str(g.ntypes))
    open(os.path.join(out_dir, "src", "main.rs"), "w").write(src)
    open(os.path.join(out_dir, "Cargo.toml"), "w").write(open(os.path.join(os.path.dirname(os.path.abspath(__file__)), "..", "derive_check", "Cargo.toml.in")).read())
    print(g.ntypes, g.nvalues)


if __name__ == "__main__":
    main()
