"""Additional (non state-space) engines per property. Filled in as they are built."""
ENGINES = {}


def replay(rp):
    print("no engine replay registered")
    return 2
