"""Additional engines per property (besides the state-space explorer runs of plans.py)."""
import driver


def sub_runs(sub, runs_by_tier):
    """Engine made of runs of another ccmc sub-command that emits the same JSON as `explore`."""
    def eng(prop, tier, seed, out, known):
        bins = {}
        for cfg, args in runs_by_tier[tier]:
            if cfg not in bins:
                bins[cfg], _ = driver.build(cfg)
            driver.explore_run(prop, cfg, bins[cfg], args, out, known, tier, seed, sub=sub)
            if out.violations and tier == "quick":
                break
        return {}
    return eng


POLICY = {
    "quick": [("full-dbg", ["--depth", "6"]), ("full-rel", ["--depth", "7"]), ("nofin-rel", ["--depth", "6"]), ("full-rel", ["--depth", "5", "--max-live", "4", "--max-objects", "5", "--sizes", "0,2,4,5"])],
    "thorough": [("full-rel", ["--depth", "10", "--max-seconds", "900"]), ("nofin-rel", ["--depth", "9", "--max-seconds", "600"]), ("full-rel", ["--depth", "0", "--max-live", "2", "--max-objects", "3", "--sizes", "0,3,5", "--percents", "0,1,2,4,6", "--max-seconds", "900"]), ("full-rel", ["--depth", "0", "--max-live", "3", "--max-objects", "4", "--sizes", "0,2,5", "--percents", "0,2,6", "--max-seconds", "900"]), ("full-dbg", ["--depth", "6"])],
}

GRID = {
    "quick": [("full-dbg", ["--depth", "5"]), ("min-dbg", ["--depth", "4"])],
    "thorough": [("full-rel", ["--depth", "6", "--set", "full"]), ("full-dbg", ["--depth", "5", "--set", "full"]), ("nofin-rel", ["--depth", "5", "--set", "full"]), ("min-dbg", ["--depth", "5", "--set", "full"])],
}

FWD = {"quick": [("full-dbg", []), ("full-rel", [])], "thorough": [("full-dbg", []), ("full-rel", []), ("min-rel", [])]}

PROBES = {"quick": [("full-dbg", [])], "thorough": [("full-dbg", []), ("full-rel", []), ("nofin-rel", []), ("min-dbg", [])]}
CONTAINERS = {
    "quick": [("full-dbg", ["--depth", "5"]), ("full-rel", ["--depth", "7", "--set", "full"]), ("nofin-rel", ["--depth", "6", "--set", "full"])],
    "thorough": [("full-rel", ["--depth", "8", "--set", "full"]), ("full-dbg", ["--depth", "6", "--set", "full"]), ("nofin-rel", ["--depth", "7", "--set", "full"]), ("full-rel", ["--depth", "6", "--set", "full", "--n", "3"])],
}

MIXED = {"quick": [("full-dbg", ["--depth", "5"]), ("nofin-rel", ["--depth", "5"])],
         "thorough": [("full-rel", ["--depth", "7"]), ("full-dbg", ["--depth", "6"]), ("nofin-rel", ["--depth", "6"])]}
RCCHAIN = {"quick": [("full-dbg", ["--max-n", "520", "--extra", "1000,1023,1024,1025,2048,4096,10000"]), ("nofin-rel", ["--max-n", "130", "--extra", "1024,4096"]), ("min-dbg", ["--max-n", "130", "--extra", "1024"])],
           "thorough": [("full-rel", ["--max-n", "2100", "--extra", "4095,4096,4097,8192,10000,16384,20000"]), ("full-dbg", ["--max-n", "1100", "--extra", "2048,4096,10000"]), ("min-dbg", ["--max-n", "600", "--extra", "1024,4096"]), ("nofin-rel", ["--max-n", "600", "--extra", "1024,4096,10000"])]}
CHAIN = {"quick": [("full-dbg", ["--max-n", "24"])], "thorough": [("full-dbg", ["--max-n", "40"]), ("full-rel", ["--max-n", "40"])]}

ENGINES = {
    "C06": [sub_runs("chain", CHAIN)],
    "C04": [sub_runs("rcchain", RCCHAIN)],
    "C03": [sub_runs("grid", GRID), sub_runs("mixed", MIXED)],
    "C13": [sub_runs("grid", GRID)],
    "C15": [sub_runs("policy", POLICY)],
    "C17": [sub_runs("probes", PROBES), sub_runs("containers", CONTAINERS)],
    "C20": [sub_runs("grid", GRID), sub_runs("fwd", FWD)],
}

SETUP = []




# ---------------------------------------------------------------------------------------------------------------
# C18: derive macros. Bounded-exhaustive enumeration of type definitions (generated source, compiled against
# /repo/derive, executed) + compile probes for the Drop emission.
# ---------------------------------------------------------------------------------------------------------------
import json
import os
import re
import shutil
import subprocess
import time


REPO = os.environ.get("VERIF_REPO", "/repo")  # (override only for experiments against a scratch copy)


def _manifest(name):
    return open(os.path.join(driver.ROOT, "derive_check", "Cargo.toml.in")).read().replace('name = "derive-check"', 'name = "%s"' % name).replace('path = "/repo"', 'path = "%s"' % REPO)


def _cargo(args, cwd, target):
    e = driver.env_offline()
    e["CARGO_TARGET_DIR"] = target
    return subprocess.run(["cargo"] + args + ["--offline"], cwd=cwd, env=e, stdout=subprocess.PIPE, stderr=subprocess.PIPE, text=True)


def derive_engine(prop, tier, seed, out, known):
    t0 = time.time()
    root = driver.ROOT
    work = os.path.join(driver.BUILD, "derive-" + tier)
    target = os.path.join(driver.BUILD, "derive-target-" + tier)
    os.makedirs(work, exist_ok=True)
    g = subprocess.run(["python3", os.path.join(root, "lib", "gen_derive.py"), work, tier], stdout=subprocess.PIPE, text=True)
    ntypes, nvalues = [int(x) for x in g.stdout.split()]
    shutil.copy(os.path.join(REPO, "Cargo.lock"), os.path.join(work, "Cargo.lock"))
    open(os.path.join(work, "Cargo.toml"), "w").write(_manifest("derive-check"))
    run = {"config": "derive-check crate (rust-cc default features + derive)", "lens": "derive", "lens_args": "gen_derive.py " + tier, "states": ntypes, "transitions": nvalues,
           "executions": nvalues, "fixpoint": True, "cut_reason": None, "samples": [], "vacuity": {}, "scope": {"types": ntypes, "values": nvalues}, "wall_s": 0}
    viol = []
    b = _cargo(["build"], work, target)
    if b.returncode != 0:
        errs = [l for l in b.stderr.splitlines() if l.startswith("error")][:5]
        viol.append(("derive-compile", "the generated type definitions (valid shapes with derive(Trace, Finalize)) do not compile: " + " | ".join(errs)))
    else:
        r = subprocess.run([os.path.join(target, "debug", "derive-check")], stdout=subprocess.PIPE, stderr=subprocess.PIPE, text=True)
        head = [l for l in r.stdout.splitlines() if l.startswith("TYPES")]
        if not head:
            viol.append(("derive-run", "the derive check binary crashed: " + r.stderr[-300:]))
        else:
            w = head[0].split()
            run["vacuity"] = {"types": int(w[1]), "values": int(w[3]), "trace_invocations": int(w[5]), "probes": int(w[7])}
            run["executions"] = int(w[5])
        for l in r.stdout.splitlines():
            if l.startswith("VIOLATION "):
                m = l[len("VIOLATION "):]
                if m.startswith("MACHINERY"):
                    out.machinery.append(m)
                else:
                    viol.append(("derive-visit", m))
        run["samples"] = ["struct SN3M5 { #[rust_cc(ignore)] f0: Probe, f1: Vec<Probe>, #[rust_cc(ignore)] f2: Option<Probe> } (mask 0b101)",
                          "enum E<k> with variants drawn from {unit, tuple1, tuple2, named1, named2, tuple2 with ignored field, named2 with ignored field, ignored variant}"]
    # compile probes
    pdir = os.path.join(driver.BUILD, "derive-probes")
    os.makedirs(os.path.join(pdir, "src", "bin"), exist_ok=True)
    open(os.path.join(pdir, "Cargo.toml"), "w").write(_manifest("derive-probes"))
    shutil.copy(os.path.join(root, "derive_check", "conflict.rs.in"), os.path.join(pdir, "src", "lib.rs"))
    shutil.copy(os.path.join(root, "derive_check", "nodrop.rs.in"), os.path.join(pdir, "src", "bin", "nodrop.rs"))
    shutil.copy(os.path.join(REPO, "Cargo.lock"), os.path.join(pdir, "Cargo.lock"))
    ptarget = os.path.join(driver.BUILD, "derive-target-probes")
    c = _cargo(["build", "--lib", "--message-format=json"], pdir, ptarget)
    codes = []
    for line in c.stdout.splitlines():
        try:
            j = json.loads(line)
        except Exception:
            continue
        if j.get("reason") == "compiler-message" and j["message"].get("level") == "error":
            code = (j["message"].get("code") or {}).get("code")
            codes.append(code)
    expected = len(re.findall(r"^impl.* Drop for ", open(os.path.join(pdir, "src", "lib.rs")).read(), flags=re.M))
    n119 = sum(1 for x in codes if x == "E0119")
    other = [x for x in codes if x not in ("E0119", None)]
    if n119 != expected or other:
        viol.append(("derive-drop", "user-written Drop on %d derived types: rustc reported %d E0119 conflicts (expected %d) and other errors %s - the derive no longer forbids a custom Drop" % (expected, n119, expected, other[:3])))
    # the nodrop probe is a separate package build (the lib above does not compile by design): build it alone
    ndir = os.path.join(driver.BUILD, "derive-nodrop")
    os.makedirs(os.path.join(ndir, "src"), exist_ok=True)
    open(os.path.join(ndir, "Cargo.toml"), "w").write(_manifest("derive-nodrop"))
    shutil.copy(os.path.join(root, "derive_check", "nodrop.rs.in"), os.path.join(ndir, "src", "main.rs"))
    shutil.copy(os.path.join(REPO, "Cargo.lock"), os.path.join(ndir, "Cargo.lock"))
    n = _cargo(["build"], ndir, ptarget)
    if n.returncode != 0:
        viol.append(("derive-nodrop", "types with #[rust_cc(unsafe_no_drop)] and a user-written Drop do not compile: " + " | ".join([l for l in n.stderr.splitlines() if l.startswith("error")][:3])))
    else:
        r = subprocess.run([os.path.join(ptarget, "debug", "derive-nodrop")], stdout=subprocess.PIPE, text=True)
        if "DROPS 7" not in r.stdout:
            viol.append(("derive-nodrop", "user-written Drop of unsafe_no_drop types ran %s (expected 'DROPS 7')" % r.stdout.strip()))
    run["vacuity"]["drop_conflict_probes"] = expected
    run["vacuity"]["e0119_reported"] = n119
    run["wall_s"] = round(time.time() - t0, 1)
    out.runs.append(run)
    for kind, msg in viol[:5]:
        v = {"property": "C18", "predicate": "P-derive", "message": msg}
        k = driver.match_known(prop, v, known)
        if k:
            out.known.append("%s (%s)" % (k.get("id", "?"), msg))
        else:
            os.makedirs(driver.REPLAYS, exist_ok=True)
            path = os.path.join(driver.REPLAYS, "C18-%s.json" % kind)
            json.dump({"property": "C18", "engine": "derive", "tier": tier, "violations": [v], "how_to_replay": "./check C18 --tier %s" % tier}, open(path, "w"), indent=1)
            out.violations.append((path, "P-derive " + msg))
    return {"derive_types": ntypes, "derive_values": nvalues}


ENGINES["C18"] = [derive_engine]


def replay(rp):
    if rp.get("engine") == "derive":
        o = driver.Outcome()
        derive_engine("C18", rp.get("tier", "quick"), 0, o, [])
        for p, m in o.violations:
            print("VIOLATION property=C18 replay=%s\n  %s" % (p, m))
        return 1 if o.violations else 0
    print("no engine replay registered")
    return 2


# ---------------------------------------------------------------------------------------------------------------
# C19: thread teardown matrix (one scenario per subprocess) + interleavings (sub-command `interleave`)
# ---------------------------------------------------------------------------------------------------------------
def teardown_engine(prop, tier, seed, out, known):
    from concurrent.futures import ThreadPoolExecutor
    t0 = time.time()
    cfgs = ["full-dbg"] if tier == "quick" else ["full-dbg", "full-rel", "nofin-rel", "min-dbg"]
    total, bad = 0, []
    samples = []
    for cfg in cfgs:
        binpath, _ = driver.build(cfg)
        combos = [(o, k, c, mn) for o in (0, 1) for k in range(10) for c in (0, 1) for mn in (0, 1)]

        def one(x):
            o, k, c, mn = x
            cmd = [binpath, "teardown", "--order", str(o), "--kind", str(k), "--tls-collects", str(c), "--main", str(mn)]
            for attempt in range(3):
                try:
                    p = subprocess.run(cmd, stdout=subprocess.PIPE, stderr=subprocess.PIPE, text=True, timeout=120)
                    return x, p.returncode, p.stdout, p.stderr
                except subprocess.TimeoutExpired:
                    continue
            return x, -999, "", "scenario did not finish within 120 s (three attempts): hang"
        with ThreadPoolExecutor(max_workers=16) as ex:
            for x, rc, so, se in ex.map(one, combos):
                total += 1
                line = [l for l in so.splitlines() if l.startswith("TEARDOWN")]
                desc = "config %s: user thread-local %s the collector's, scenario %d, thread-local destructor %s, %s thread" % (cfg, "destroyed after" if x[0] == 0 else "destroyed before", x[1], "collects and allocates" if x[2] else "is passive", "main" if x[3] else "spawned")
                if len(samples) < 4 and total % 17 == 1:
                    samples.append(desc + " -> " + (line[0] if line else "no report"))
                why = None
                if rc != 0:
                    why = "process exit status %s (%s)" % (rc, (se.strip().splitlines() or ["no message"])[-1][:200])
                elif not line:
                    why = "no report line"
                else:
                    kv = dict(w.split("=") for w in line[0].split() if "=" in w)
                    if int(kv.get("double", 0)) or int(kv.get("bad_canary", 0)):
                        why = "a value was dropped twice or a callback saw freed memory: " + line[0]
                    elif int(kv.get("drops", 0)) > int(kv.get("created", 0)):
                        why = "more drops than objects: " + line[0]
                if why:
                    bad.append((x, cfg, desc, why))
    run = {"config": ",".join(cfgs), "lens": "teardown", "lens_args": "teardown matrix: 2 orders x 10 scenarios x {passive, collecting} thread-local destructor x {spawned, main} thread", "states": total, "transitions": total,
           "executions": total, "fixpoint": True, "cut_reason": None, "samples": samples, "vacuity": {"scenarios": total, "failing": len(bad)}, "scope": {}, "wall_s": round(time.time() - t0, 1)}
    out.runs.append(run)
    seen = set()
    for x, cfg, desc, why in bad:
        sig = re.sub(r"\d+", "#", why)[:80]
        if sig in seen:
            continue
        seen.add(sig)
        v = {"property": "C19", "predicate": "P-teardown", "message": "thread teardown: %s: %s" % (desc, why)}
        k = driver.match_known(prop, v, known)
        if k:
            out.known.append("%s (%s)" % (k.get("id", "?"), v["message"]))
            continue
        os.makedirs(driver.REPLAYS, exist_ok=True)
        path = os.path.join(driver.REPLAYS, "C19-teardown-%d-%d-%d-%d-%s.json" % (x + (cfg,)))
        json.dump({"property": "C19", "engine": "teardown", "config": cfg, "args": ["teardown", "--order", str(x[0]), "--kind", str(x[1]), "--tls-collects", str(x[2]), "--main", str(x[3])], "violations": [v]}, open(path, "w"), indent=1)
        out.violations.append((path, "P-teardown " + v["message"]))
    return {"teardown_scenarios": total}


INTERLEAVE = {
    "quick": [("full-dbg", ["--max-threads", "8"])],
    "thorough": [("full-dbg", ["--max-threads", "16", "--pair-len", "5", "--triple-len", "3", "--thorough"]), ("full-rel", ["--max-threads", "16", "--pair-len", "5", "--triple-len", "2"]), ("nofin-rel", ["--max-threads", "8"])],
}
ENGINES["C19"] = [sub_runs("interleave", INTERLEAVE), teardown_engine]

_replay_prev = replay


def replay(rp):  # noqa: F811
    if rp.get("engine") == "teardown":
        binpath, _ = driver.build(rp["config"])
        p = subprocess.run([binpath] + rp["args"])
        print("exit status", p.returncode)
        return 1 if p.returncode != 0 else 0
    return _replay_prev(rp)


def parallel_engine(prop, tier, seed, out, known):
    """C19 (c): 16 worker threads explore independent worlds concurrently in one process. A violation of ANY oracle
    that an isolated single-threaded replay of the same history does not reproduce can only come from state shared
    between the collectors of different threads."""
    binpath, _ = driver.build("full-dbg")
    os.makedirs(os.path.join(driver.BUILD, "tmp"), exist_ok=True)
    outfile = os.path.join(driver.BUILD, "tmp", "par-%d.json" % os.getpid())
    depth = "9" if tier == "quick" else "13"
    args = ["--lens", "auto", "--n", "3", "--v", "3", "--depth", depth, "--threads", "16", "--fresh", "0"]
    rc, so, se, wall = driver.run_bin(binpath, ["explore"] + args + ["--out", outfile], timeout=3600)
    if not os.path.exists(outfile):
        out.machinery.append("parallel exploration died: %s" % se[-300:])
        return {}
    r = json.load(open(outfile))
    os.remove(outfile)
    r["config"] = "full-dbg"
    r["lens_args"] = "parallel-vs-isolated " + " ".join(args)
    out.runs.append(r)
    lens_args = driver.strip_explore_only(args)
    for f in r.get("found", [])[:3]:
        rrc, rres, _ = driver.replay(binpath, lens_args, f["history"])
        if rrc == 0:
            v = {"property": "C19", "predicate": "P-indep", "message": "seen only while other threads were running their own collectors (an isolated replay of the same history is clean): " + f["violations"][0]["message"]}
            k = driver.match_known(prop, v, known)
            if k:
                out.known.append("%s (%s)" % (k.get("id", "?"), v["message"]))
                continue
            path = driver.write_replay(prop, "full-dbg", lens_args, f["history"], f["history_pretty"], f.get("epilogue_pretty", ""), [v], "parallel-only")
            out.violations.append((path, "P-indep [full-dbg] %s | history: %s" % (v["message"], f["history_pretty"])))
    return {}


ENGINES["C19"].append(parallel_engine)


# ---------------------------------------------------------------------------------------------------------------
# Plain unit-test replays of the repaired findings F1-F3 (regressions/tests/findings.rs): fail if one returns
# ---------------------------------------------------------------------------------------------------------------
REGRESSION_TESTS = {"C07": "f1_trace_panic_leaves_no_stale_tracing_counter", "C14": "f2_new_cyclic_with_panicking_automatic_collection_touches_no_value", "C12": "f3_collection_started_from_rc_finalizer_is_observable", "C10": "f4_cleaning_actions_reentering_their_own_cleaner"}
REGRESSION_TESTS_EXTRA = {"C10": ["f5_register_nested_in_register_through_an_automatic_collection"]}


def regressions_engine(prop, tier, seed, out, known):
    for name in [REGRESSION_TESTS[prop]] + REGRESSION_TESTS_EXTRA.get(prop, []):
        _regression(prop, name, out, known)
    return {}


def _regression(prop, name, out, known):
    t0 = time.time()
    rdir = os.path.join(driver.ROOT, "regressions")
    shutil.copy("/repo/Cargo.lock", os.path.join(rdir, "Cargo.lock"))
    e = driver.env_offline()
    e["CARGO_TARGET_DIR"] = os.path.join(driver.BUILD, "regressions")
    p = subprocess.run(["cargo", "test", "--offline", "--test", "findings", name, "--", "--exact", "--test-threads", "1"], cwd=rdir, env=e, stdout=subprocess.PIPE, stderr=subprocess.STDOUT, text=True)
    ok = ("test %s ... ok" % name) in p.stdout
    out.runs.append({"config": "regressions crate (default features + weak-ptrs, cleaners)", "lens": "regression replay", "lens_args": name, "states": 1, "transitions": 1, "executions": 1, "fixpoint": True,
                     "cut_reason": None, "samples": ["plain unit test replaying the counterexample of a repaired finding without the explorer: " + name], "vacuity": {}, "scope": {}, "wall_s": round(time.time() - t0, 1)})
    if not ok:
        if "error: could not compile" in p.stdout or "error[" in p.stdout:
            out.machinery.append("regression replay crate does not compile: " + p.stdout[-400:])
            return {}
        v = {"property": prop, "predicate": "P-regression", "message": "the repaired finding replayed by regressions/tests/findings.rs::%s is back: %s" % (name, " | ".join([l for l in p.stdout.splitlines() if "panicked" in l][:2]))}
        k = driver.match_known(prop, v, known)
        if k:
            out.known.append("%s (%s)" % (k.get("id", "?"), v["message"]))
        else:
            os.makedirs(driver.REPLAYS, exist_ok=True)
            path = os.path.join(driver.REPLAYS, "%s-regression-%s.json" % (prop, name[:2]))
            json.dump({"property": prop, "engine": "regression", "test": name, "violations": [v], "how_to_replay": "cd /verif/regressions && cargo test --offline --test findings " + name}, open(path, "w"), indent=1)
            out.violations.append((path, "P-regression " + v["message"]))
    return {}


for _p in REGRESSION_TESTS:
    ENGINES.setdefault(_p, []).append(regressions_engine)

_replay_prev2 = replay


def replay(rp):  # noqa: F811
    if rp.get("engine") == "regression":
        o = driver.Outcome()
        regressions_engine(rp["property"], "quick", 0, o, [])
        for p, m in o.violations:
            print("VIOLATION property=%s replay=%s\n  %s" % (rp["property"], p, m))
        return 1 if o.violations else 0
    return _replay_prev2(rp)
