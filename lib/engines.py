"""Additional engines per property (besides the state-space explorer runs of plans.py)."""
import driver


def sub_runs(sub, runs_by_tier):
    """Engine made of runs of another ccmc sub-command that emits the same JSON as `explore`."""
    def eng(prop, tier, seed, out, known):
        bins = {}
        for cfg, args in runs_by_tier[tier]:
            if cfg not in bins:
                bins[cfg], _ = driver.build(cfg)
            driver.explore_run(prop, cfg, bins[cfg], args, out, known, tier, seed, sub=sub)
            if out.violations and tier == "quick":
                break
        return {}
    return eng


POLICY = {
    "quick": [("full-dbg", ["--depth", "6"]), ("full-rel", ["--depth", "5", "--max-live", "4", "--max-objects", "5", "--sizes", "0,2,4,5"])],
    "thorough": [("full-rel", ["--depth", "8", "--max-seconds", "900"]), ("full-rel", ["--depth", "0", "--max-live", "2", "--max-objects", "3", "--sizes", "0,3,5", "--percents", "0,1,2,4,6", "--max-seconds", "900"]), ("full-dbg", ["--depth", "6"])],
}

GRID = {
    "quick": [("full-dbg", ["--depth", "5"]), ("min-dbg", ["--depth", "4"])],
    "thorough": [("full-rel", ["--depth", "6", "--set", "full"]), ("full-dbg", ["--depth", "5", "--set", "full"]), ("nofin-rel", ["--depth", "5", "--set", "full"]), ("min-dbg", ["--depth", "5", "--set", "full"])],
}

ENGINES = {
    "C03": [sub_runs("grid", GRID)],
    "C13": [sub_runs("grid", GRID)],
    "C15": [sub_runs("policy", POLICY)],
    "C20": [sub_runs("grid", GRID)],
}

SETUP = []


def replay(rp):
    print("no engine replay registered")
    return 2
