"""Which explorations decide which property, per tier. Each run is (configuration, argument list of `ccmc explore`).
Scope notation: n = objects ever created, v = handle variables, w = weak variables, c = cleanable variables,
depth 0 = until fixpoint (every reachable state of the scope). Two-object cycles need v >= 3 (one variable per
object plus one to carry the back edge), so v=3 is the default; v=2 scopes are only used for fixpoints."""


def R(cfg, lens, n, v, depth=0, **kw):
    args = ["--lens", lens, "--n", str(n), "--v", str(v), "--depth", str(depth)]
    for k, val in kw.items():
        args += ["--" + k.replace("_", "-"), str(val)]
    return (cfg, args)


# Script menus (see harness/src/world.rs)
FIN_RESURRECT = "0,1,2,3"          # Nop, CloneCell0ToG, CloneCell1ToG, MoveCell0ToG
FIN_RELEASE = "0,4,5,12"           # Nop, TakeCell0, TakeCell1, DropG
FIN_ALLOC = "0,7,8,16,17"          # Nop, AllocIntoCell1, AllocCycleAndDrop, CollectThenAlloc, NewCyclicIntoCell1
FIN_PHASE = "0,9,10,11,14,15"      # Nop, Collect, TryUnwrapG, FinalizeAgainG, CollectThenTryUnwrapG, CollectThenFinalizeAgainG
FIN_MIX = "0,1,4,9"                # Nop, CloneCell0ToG, TakeCell0, Collect
FIN_ALL = "0,1,2,3,4,5,7,8,9,10,11,12,14,15,16,17"
DROP_PHASE = "0,2,3,4,5,6"         # Nop, Collect, TryUnwrapG, FinalizeAgainG, CollectThenTryUnwrapG, CollectThenFinalizeAgainG
ACT_ALL = "0,1,2,3,4,5,6"
ACT_WEAK = "0,3,4"                 # Nop, UpgradeOwnerWeak, UpgradeNeighbourWeak
ACT_REENTRANT = "0,1,5"            # Nop, DropCapturedCc, CleanOther
ACT_PHASE = "0,2,6"                # Nop, Alloc, Collect

Q, T = "quick", "thorough"
PLANS = {}


def plan(prop, tier, runs):
    PLANS[(prop, tier)] = runs


BIG = 1500   # seconds: cap of the largest thorough runs (reported as a cut if hit)
MID = 400

# ---- shared run families -----------------------------------------------------------------------------------
core_q = [
    R("full-dbg", "core", 2, 3),                 # fixpoint, 1.97e5 states
    R("nofin-rel", "core", 2, 3),                # fixpoint (single-pass collect)
    R("min-dbg", "core", 2, 3),                  # fixpoint (no weak-ptrs: other drop paths)
    R("full-rel", "core", 3, 3, depth=12),
    R("full-dbg", "coreh", 2, 3, depth=16),
]
core_t = [R(c, "core", 2, 3) for c in ["full-dbg", "full-rel", "nofin-rel", "nofin-dbg", "min-dbg", "min-rel", "pedantic-dbg"]] + [
    R("full-rel", "core", 3, 2, max_seconds=BIG),          # fixpoint, 1.45e7 states
    R("nofin-rel", "core", 3, 2, max_seconds=BIG),
    R("full-rel", "core", 3, 3, depth=15, max_seconds=BIG),
    R("full-dbg", "core", 3, 3, depth=13),
    R("full-rel", "core", 4, 3, depth=11, max_seconds=BIG),
    R("full-dbg", "coreh", 2, 3),
    R("pedantic-dbg", "coreh", 2, 3, depth=18),
]


def fin_q(menu, depth=13, cfg="full-dbg", n=2):
    return R(cfg, "fin", n, 3, depth=depth, fin_menu=menu)


def fin_t(menu, depth=18, cfg="full-rel", n=2):
    return R(cfg, "fin", n, 3, depth=depth, fin_menu=menu, max_seconds=MID)


weak_q = [R("full-dbg", "weak", 2, 3, depth=13), R("full-dbg", "weakfin", 2, 3, depth=10)]
weak_t = [
    R("full-rel", "weak", 2, 2, max_seconds=BIG),          # fixpoint attempt
    R("full-rel", "weak", 2, 3, depth=17, max_seconds=MID),
    R("full-dbg", "weak", 2, 3, depth=14),
    R("full-rel", "weakfin", 2, 3, depth=13, max_seconds=MID),
    R("full-dbg", "weakfin", 2, 3, depth=11),
    R("full-rel", "weakfin", 3, 3, depth=10, max_seconds=MID),
    R("nofin-rel", "weakfin", 2, 3, depth=12, max_seconds=MID),
]
cyclic_q = [R("full-dbg", "cyclic", 3, 3, depth=7)]
cyclic_t = [R("full-rel", "cyclic", 3, 3, depth=9, max_seconds=MID), R("full-dbg", "cyclic", 3, 3, depth=8), R("full-rel", "cyclic", 2, 2, max_seconds=MID)]
cleaner_q = [R("full-dbg", "cleaner", 2, 3, depth=8)]
cleaner_t = [R("full-rel", "cleaner", 2, 3, depth=11, max_seconds=MID, action_menu=ACT_ALL), R("full-dbg", "cleaner", 2, 3, depth=9, action_menu=ACT_ALL)]
auto_q = [R("full-dbg", "auto", 3, 3, depth=10)]
auto_t = [R("full-rel", "auto", 3, 3, depth=14, max_seconds=MID), R("full-dbg", "auto", 3, 3, depth=12), R("full-rel", "autofin", 3, 3, depth=11, max_seconds=MID)]

def seeded(depth, cfg="full-dbg", **kw):
    """Graph-seeded exploration: every heap shape of family g3 (3 objects, c0 of each, c1 of #1, untraced cell of #0,
    weak cell of #2, scripted finalizer of #2 / destructor of #0, at most one handle kept) is an initial state."""
    a = dict(w=1, seed_family="g3", fresh=0)
    a.update(kw)
    n = a.pop("n", 3)
    return R(cfg, "dyn", n, 4, depth=depth, **a)


def nested(depth, cfg="full-dbg", **kw):
    """Family g4n: a garbage cycle (A alone or A <-> B) owns Child through an untraced (or second traced) cell, Child owns
    Leaf; Child and Leaf carry finalizer / destructor scripts and a weak cell to a cycle member: callbacks nested two
    and three levels deep inside the collector's dropping phase (18-operation prefixes)."""
    a = dict(n=4, seed_family="g4n", fin_menu="0,4,6", drop_menu="0,1")
    a.update(kw)
    return seeded(depth, cfg=cfg, **a)


seed_q = [seeded(2), seeded(1, cfg="nofin-rel"), seeded(1, seed_family="g3b"), nested(1)]
seed_t = [seeded(4, cfg="full-rel", max_seconds=BIG), seeded(3), seeded(3, cfg="nofin-rel"), seeded(3, cfg="full-rel", seed_family="g3b", max_seconds=MID), nested(2, cfg="full-rel", max_seconds=MID), nested(1, fin_menu="0,1,4,5,6", drop_menu="0,1"), seeded(3, cfg="full-rel", fin_menu="0,1,13", drop_menu="0,1,2", max_seconds=MID),
          seeded(2, cfg="full-rel", c=1, action_menu="1,3,4", max_seconds=MID)]

# ---- C01 no premature reclamation ---------------------------------------------------------------------------
plan("C01", Q, core_q + seed_q + [fin_q(FIN_RESURRECT), R("full-rel", "fin", 3, 3, depth=9, fin_menu="0,1,8,12"), R("full-dbg", "weakfin", 2, 3, depth=10)] + auto_q + cleaner_q)
plan("C01", T, core_t + seed_t + [fin_t(FIN_RESURRECT), fin_t(FIN_ALL, depth=11), fin_t(FIN_RESURRECT, depth=11, n=3), R("full-rel", "fin", 3, 3, depth=12, fin_menu="0,1,8,12", max_seconds=MID)] + weak_t + auto_t + cleaner_t)

# ---- C02 completeness -----------------------------------------------------------------------------------------
plan("C02", Q, core_q + seed_q + [fin_q(FIN_RELEASE), R("nofin-rel", "dtor", 2, 3, depth=13), R("full-dbg", "weak", 2, 3, depth=12), R("full-dbg", "weakfin", 2, 3, depth=10)])
plan("C02", T, core_t + seed_t + [fin_t(FIN_RELEASE), fin_t(FIN_ALL, depth=11), R("nofin-rel", "dtor", 2, 3, depth=18, max_seconds=MID)] + weak_t[1:5] + cleaner_t)

# ---- C03 drop once / free once / right layout (+ layout grid engine) ---------------------------------------------
plan("C03", Q, [R("full-dbg", "core", 2, 3), R("min-dbg", "core", 2, 3), fin_q(FIN_RELEASE, depth=11), fin_q(FIN_PHASE, depth=9), R("full-dbg", "dtor", 2, 3, depth=9, drop_menu=DROP_PHASE)] + seed_q[:1] + [R("full-dbg", "weak", 2, 3, depth=12), R("full-dbg", "weakfin", 2, 3, depth=9)] + cyclic_q)
plan("C03", T, [R(c, "core", 2, 3) for c in ["full-dbg", "full-rel", "nofin-rel", "min-dbg", "min-rel", "pedantic-dbg"]] + [R("full-rel", "core", 3, 3, depth=14, max_seconds=MID), fin_t(FIN_RELEASE), fin_t(FIN_PHASE, depth=14), R("full-rel", "dtor", 2, 3, depth=14, drop_menu=DROP_PHASE, max_seconds=MID)] + weak_t + cyclic_t + cleaner_t)

# ---- C04 Rc equivalence ---------------------------------------------------------------------------------------
plan("C04", Q, core_q + seed_q[:1] + [fin_q(FIN_RELEASE, depth=12), fin_q(FIN_RESURRECT, depth=12), R("full-dbg", "weak", 2, 3, depth=12), R("full-dbg", "sat", 1, 2, depth=5, sat_k=1)])
plan("C04", T, core_t + seed_t[:2] + [fin_t(FIN_RELEASE), fin_t(FIN_RESURRECT), fin_t(FIN_ALL, depth=11), R("full-rel", "sat", 2, 2, depth=7, sat_k=2, max_seconds=MID)] + weak_t[1:5] + cleaner_t)

# ---- C05 finalizers ---------------------------------------------------------------------------------------------
plan("C05", Q, [
    fin_q(FIN_RESURRECT), fin_q(FIN_RELEASE), fin_q(FIN_ALLOC, depth=10, n=3), fin_q(FIN_PHASE, depth=12),
    fin_q(FIN_ALL, depth=8, cfg="full-rel"), fin_q(FIN_ALL, depth=8, cfg="nofin-rel"),
    R("full-dbg", "weakfin", 2, 3, depth=10), R("full-dbg", "weakfin", 2, 3, depth=9, fin_menu="0,1,6", drop_menu="0"), R("full-dbg", "core", 2, 3),
    R("full-dbg", "fin", 2, 3, depth=9, faults=1, fault_kinds=2, fin_menu=FIN_MIX),
    nested(1, fin_menu="0,1,4", drop_menu="0"),
] + seed_q[:1])
plan("C05", T, seed_t[:2] + [
    R("full-rel", "weakfin", 2, 3, depth=12, fin_menu="0,1,6", drop_menu="0", max_seconds=MID),
    R("full-rel", "fin", 2, 3, depth=12, faults=1, fault_kinds=2, fin_menu=FIN_MIX, max_seconds=MID),
    fin_t(FIN_RESURRECT), fin_t(FIN_RELEASE), fin_t(FIN_ALLOC, depth=13, n=3), fin_t(FIN_PHASE), fin_t(FIN_ALL, depth=11),
    fin_t(FIN_ALL, depth=10, cfg="nofin-rel"), R("full-dbg", "fin", 2, 2, fin_menu=FIN_RESURRECT), R("full-dbg", "fin", 2, 2, fin_menu=FIN_RELEASE),
    R("full-rel", "weakfin", 2, 3, depth=13, max_seconds=MID), R("full-rel", "dtor", 2, 3, depth=18, max_seconds=MID),
])

# ---- C06 resurrection (+ deep-chain engine) --------------------------------------------------------------------------
plan("C06", Q, [
    fin_q(FIN_RESURRECT, depth=14), fin_q(FIN_ALL, depth=8, cfg="full-rel"),
    R("full-dbg", "weakfin", 2, 3, depth=10, fin_menu="0,6,13", drop_menu="0"),
    R("full-dbg", "weakfin", 2, 3, depth=9, fin_menu="0,1,6", drop_menu="0"),
    R("full-dbg", "fin", 3, 3, depth=10, fin_menu="0,1,3,7,8"),
    R("full-rel", "fin", 3, 3, depth=9, fin_menu="0,1,8,12"),      # partial resurrection while another finalizer buffers / releases (no debug assertions)
] + seed_q[:1])
plan("C06", T, [
    fin_t(FIN_RESURRECT, depth=19), R("full-dbg", "fin", 2, 2, fin_menu=FIN_RESURRECT), fin_t(FIN_ALL, depth=11),
    R("full-rel", "fin", 3, 3, depth=13, fin_menu="0,1,3,7,8", max_seconds=MID),
    R("full-rel", "fin", 3, 3, depth=12, fin_menu="0,1,8,12", max_seconds=MID),
    R("full-rel", "weakfin", 2, 3, depth=14, fin_menu="0,6,13", drop_menu="0", max_seconds=MID),
    R("full-rel", "weakfin", 2, 3, depth=12, fin_menu="0,1,6", drop_menu="0", max_seconds=MID),
    R("full-rel", "weakfin", 3, 3, depth=11, fin_menu="0,6", drop_menu="0", max_seconds=MID),
] + seed_t[:2] + [seeded(3, cfg="full-rel", fin_menu="0,1,6,13", drop_menu="0", max_seconds=MID)])

# ---- C07 callback panics contained at every crash point (fault forking) ---------------------------------------------
plan("C07", Q, [
    R("full-dbg", "core", 2, 3, faults=1),
    R("full-dbg", "fin", 2, 3, depth=10, faults=1, fin_menu=FIN_MIX),
    R("full-dbg", "dtor", 2, 3, depth=10, faults=1),
    R("full-dbg", "weakfin", 2, 3, depth=9, faults=1),
    R("full-dbg", "cleaner", 2, 3, depth=7, faults=1),
    R("full-dbg", "cyclic", 3, 3, depth=6, faults=1),
    R("nofin-rel", "core", 2, 3, depth=14, faults=1),
    seeded(1, faults=1),
    # a new_cyclic closure that saves a clone of its Weak and then panics, started from inside a finalizer, a destructor
    # or a cleaning action (the phase flags of the surrounding Cc::drop / collection are set)
    R("full-dbg", "fin", 3, 3, depth=7, w=1, fin_menu="0,19"),
    R("full-dbg", "dtor", 3, 3, depth=7, w=1, drop_menu="0,8"),
    R("full-dbg", "cleaner", 3, 3, depth=6, w=1, action_menu="0,10"),
])
plan("C07", T, [
    R("full-dbg", "core", 2, 3, faults=1),
    R("full-rel", "core", 2, 3, faults=2, max_seconds=BIG),
    R("nofin-rel", "core", 2, 3, faults=1),
    R("min-dbg", "core", 2, 3, faults=1),
    R("full-rel", "core", 3, 3, depth=12, faults=1, max_seconds=MID),
    R("full-rel", "fin", 2, 3, depth=13, faults=1, fin_menu=FIN_MIX, max_seconds=MID),
    R("full-rel", "fin", 2, 3, depth=9, faults=2, fin_menu=FIN_ALL, max_seconds=MID),
    R("full-rel", "dtor", 2, 3, depth=13, faults=1, max_seconds=MID),
    R("full-rel", "weakfin", 2, 3, depth=11, faults=1, max_seconds=MID),
    R("full-rel", "weak", 2, 3, depth=12, faults=1, max_seconds=MID),
    R("full-rel", "cleaner", 2, 3, depth=9, faults=1, action_menu=ACT_ALL, max_seconds=MID),
    R("full-rel", "cyclic", 3, 3, depth=8, faults=1, max_seconds=MID),
    R("full-rel", "fin", 3, 3, depth=10, w=1, fin_menu="0,1,19", max_seconds=MID),
    R("full-rel", "dtor", 3, 3, depth=10, w=1, drop_menu="0,1,8", max_seconds=MID),
    R("full-rel", "cleaner", 3, 3, depth=9, w=1, action_menu="0,1,10", max_seconds=MID),
    R("full-rel", "autofin", 3, 3, depth=9, faults=1, max_seconds=MID),
    R("full-dbg", "fin", 2, 3, depth=10, faults=1, fin_menu=FIN_ALL),
    seeded(2, cfg="full-rel", faults=1, max_seconds=BIG), seeded(1, cfg="nofin-rel", faults=1),
])

# ---- C08 Weak::upgrade ----------------------------------------------------------------------------------------------
plan("C08", Q, seed_q + weak_q + [R("full-dbg", "cleaner", 2, 3, depth=8, action_menu=ACT_WEAK), R("full-rel", "weakfin", 3, 3, depth=8)] + cyclic_q)
plan("C08", T, seed_t + weak_t + [R("full-rel", "cleaner", 2, 3, depth=11, action_menu=ACT_WEAK, max_seconds=MID)] + cyclic_t)

# ---- C09 counts and side record --------------------------------------------------------------------------------------
plan("C09", Q, [R("full-dbg", "weak", 1, 2, w=3), R("full-dbg", "weakfin", 2, 3, depth=9, w=1, fin_menu="0", drop_menu="0,9")] + weak_q + cyclic_q)   # 9 = a destructor clones the Weak in its own cell
plan("C09", T, [R("full-rel", "weakfin", 2, 3, depth=12, w=1, fin_menu="0,6", drop_menu="0,1,9", max_seconds=MID), R("full-dbg", "weak", 1, 3, w=3), R("full-rel", "weak", 2, 3, depth=14, w=3, max_seconds=MID)] + weak_t + cyclic_t + cleaner_t[:1])

# ---- C10 cleaning actions ---------------------------------------------------------------------------------------------
plan("C10", Q, [
    R("full-dbg", "cleaner", 2, 3, depth=8, action_menu=ACT_REENTRANT),
    R("full-dbg", "cleaner", 2, 3, depth=7, action_menu=ACT_ALL, c=3, max_actions=3),
    R("nofin-rel", "cleaner", 2, 3, depth=8),
    R("full-dbg", "cleanermany", 1, 1, c=5, max_actions=6),
    # automatic collections on: register() allocates the action map lazily with Cc::new, whose collection may run
    # finalizers that use the same Cleaner (registration nested in a registration)
    R("full-dbg", "autoclean", 2, 3, depth=10, c=3, max_actions=2),
])
plan("C10", T, [
    R("full-dbg", "cleanermany", 1, 1, c=6, max_actions=7, max_seconds=MID),
    R("full-rel", "cleanermany", 2, 2, c=5, max_actions=6, depth=14, action_menu="0,5", max_seconds=MID),
    R("full-rel", "cleaner", 2, 3, depth=11, action_menu=ACT_REENTRANT, max_seconds=MID),
    R("full-rel", "cleaner", 2, 3, depth=10, action_menu=ACT_ALL, c=3, max_actions=3, max_seconds=MID),
    R("full-dbg", "cleaner", 2, 3, depth=9, action_menu=ACT_ALL),
    R("nofin-rel", "cleaner", 2, 3, depth=11, max_seconds=MID),
    R("full-dbg", "cleaner", 1, 2, action_menu="0,5", c=3, max_actions=3, max_seconds=MID),
    R("full-rel", "autoclean", 2, 3, depth=13, c=3, max_actions=2, max_seconds=MID),
    R("full-rel", "autoclean", 3, 3, depth=11, c=3, max_actions=2, max_seconds=MID),
])

# ---- C11 introspection counters ----------------------------------------------------------------------------------------
plan("C11", Q, core_q + auto_q + cyclic_q + seed_q[:1] + [fin_q(FIN_RELEASE, depth=12), R("full-dbg", "weak", 2, 3, depth=12),
                R("full-dbg", "core", 2, 3, faults=1),       # "always": the counters are also exact after a caught callback panic
                R("full-dbg", "fin", 2, 3, depth=9, fin_menu="0,4,9")])   # a refused collect_cycles() from a callback must not count
plan("C11", T, core_t + auto_t + cyclic_t + seed_t[:2] + [fin_t(FIN_RELEASE)] + weak_t[1:5] + cleaner_t + [R("full-dbg", "core", 2, 3, faults=1), R("full-rel", "fin", 2, 3, depth=11, faults=1, fin_menu=FIN_MIX, max_seconds=MID), R("full-rel", "dtor", 2, 3, depth=11, faults=1, max_seconds=MID)])

# ---- C12 phases, no nesting ----------------------------------------------------------------------------------------------
plan("C12", Q, [
    fin_q(FIN_PHASE, depth=12), R("full-dbg", "dtor", 2, 3, depth=12, drop_menu=DROP_PHASE),
    R("full-dbg", "cleaner", 2, 3, depth=8, action_menu=ACT_PHASE),
    R("full-dbg", "autofin", 3, 3, depth=8), R("full-dbg", "core", 2, 3),
    # callbacks nested two levels deep by reference counting (a finalizer inside another object's drop glue, a
    # destructor inside a finalizer that releases the last reference, a finalizer inside a cleaning action): three objects
    seeded(1, cfg="full-rel", seed_family="g3b", fin_menu="0,10,11", drop_menu="0,3,4"),
    nested(1, cfg="full-rel", fin_menu="0,4,10,11", drop_menu="0,3,4"),
    # allocation-triggered collection through the *buffered-objects* threshold, from finalizers and destructors
    R("full-dbg", "dynauto", 7, 4, depth=2, seed_family="ga", fresh=0),
    R("full-rel", "fin", 3, 3, depth=8, fin_menu="0,10,11"),
    R("full-rel", "dtor", 3, 3, depth=9, fin_menu="0,4", drop_menu="0,3,4"),
    R("full-rel", "cleaner", 3, 3, depth=8, action_menu="0,1", fin_menu="0,11"),
])
plan("C12", T, [
    fin_t(FIN_PHASE, depth=16), R("full-rel", "dtor", 2, 3, depth=16, drop_menu=DROP_PHASE, max_seconds=MID), fin_t(FIN_ALL, depth=11),
    R("full-rel", "cleaner", 2, 3, depth=11, action_menu=ACT_PHASE, max_seconds=MID),
    R("full-rel", "autofin", 3, 3, depth=11, max_seconds=MID), R("nofin-rel", "dtor", 2, 3, depth=16, max_seconds=MID),
    R("full-dbg", "fin", 2, 2, fin_menu=FIN_PHASE, max_seconds=MID), R("full-dbg", "dtor", 2, 2, drop_menu=DROP_PHASE, max_seconds=MID),
    seeded(2, cfg="full-rel", seed_family="g3b", fin_menu="0,10,11,14", drop_menu="0,3,4,5", max_seconds=MID),
    nested(2, cfg="full-rel", fin_menu="0,4,10,11", drop_menu="0,3,4", max_seconds=MID),
    R("full-rel", "dynauto", 7, 4, depth=4, seed_family="ga", fresh=0, max_seconds=MID),
    R("full-rel", "fin", 3, 3, depth=10, fin_menu="0,10,11", max_seconds=MID),
    R("full-rel", "dtor", 3, 3, depth=11, fin_menu="0,4", drop_menu="0,3,4", max_seconds=MID),
    R("full-rel", "cleaner", 3, 3, depth=10, action_menu="0,1", fin_menu="0,11", max_seconds=MID),
])

# ---- C13 try_unwrap (+ layout grid engine) ---------------------------------------------------------------------------------
plan("C13", Q, weak_q + cyclic_q + [R("min-dbg", "weak", 2, 3, depth=13)])
plan("C13", T, weak_t + cyclic_t + [R("min-dbg", "weak", 2, 3, depth=16, max_seconds=MID)])

# ---- C14 new_cyclic ---------------------------------------------------------------------------------------------------------
plan("C14", Q, cyclic_q + [R("full-dbg", "cyclic", 3, 3, depth=6, closure_menu="0,2,7"),     # 7 = a nested new_cyclic inside the closure
                R("full-dbg", "cyclic", 3, 3, depth=6, faults=1), R("full-rel", "cyclic", 2, 3, depth=8), R("full-dbg", "fin", 3, 3, depth=9, fin_menu="0,17"),
                 R("full-dbg", "fin", 3, 3, depth=7, w=1, fin_menu="0,19"), R("full-dbg", "dtor", 3, 3, depth=7, w=1, drop_menu="0,8")])
plan("C14", T, cyclic_t + [R("full-rel", "cyclic", 4, 3, depth=8, closure_menu="0,1,2,7", max_seconds=MID),
                R("full-rel", "fin", 3, 3, depth=12, fin_menu="0,1,17", max_seconds=MID), R("full-rel", "cyclic", 3, 3, depth=8, faults=1, max_seconds=MID), R("nofin-rel", "cyclic", 3, 3, depth=8, faults=1, max_seconds=MID)])

# ---- C16 saturation -----------------------------------------------------------------------------------------------------------
plan("C16", Q, [R("full-dbg", "sat", 1, 2, depth=6, sat_k=1), R("full-rel", "sat", 2, 2, depth=6, sat_k=1), R("full-rel", "sat", 1, 2, depth=8, sat_k=0, w=1, fin_menu="0,1"),
                 R("full-rel", "sat", 2, 2, depth=7, sat_k=0, w=1),        # 16382 references all owned by a traced bag of another object
                 R("full-rel", "sat", 2, 3, depth=6, sat_k=0)])            # ... which is itself part of a garbage cycle with its owner
plan("C16", T, [R("full-rel", "sat", 1, 2, depth=11, sat_k=1, w=1, fin_menu="0,1", max_seconds=MID), R("full-dbg", "sat", 1, 2, depth=8, sat_k=2), R("full-rel", "sat", 2, 2, depth=8, sat_k=2, max_seconds=MID), R("nofin-rel", "sat", 1, 2, depth=7, sat_k=1),
                 R("full-rel", "sat", 2, 2, depth=9, sat_k=1, w=1, max_seconds=MID), R("full-dbg", "sat", 2, 3, depth=7, sat_k=0, w=1, max_seconds=MID)])

# ---- C20a address stability / ptr_eq (forwarding impls: separate enumeration engine) --------------------------------------------
plan("C20", Q, [R("full-dbg", "core", 2, 3), R("full-rel", "core", 3, 3, depth=11)])
plan("C20", T, [R("full-dbg", "core", 2, 3), R("full-rel", "core", 3, 3, depth=14, max_seconds=MID), R("full-dbg", "weak", 2, 3, depth=13)])
