"""Which explorations decide which property, per tier. Each run is (configuration, argument list of `ccmc explore`).
Scope notation: n = objects ever created, v = handle variables, w = weak variables, c = cleanable variables,
depth 0 = until fixpoint (every reachable state of the scope)."""


def R(cfg, lens, n, v, depth=0, **kw):
    args = ["--lens", lens, "--n", str(n), "--v", str(v), "--depth", str(depth)]
    for k, val in kw.items():
        args += ["--" + k.replace("_", "-"), str(val)]
    return (cfg, args)


# Script menus (see harness/src/world.rs)
FIN_RESURRECT = "0,1,2,3"          # Nop, CloneCell0ToG, CloneCell1ToG, MoveCell0ToG
FIN_RELEASE = "0,4,5,12"           # Nop, TakeCell0, TakeCell1, DropG
FIN_ALLOC = "0,7,8"                # Nop, AllocIntoCell1, AllocCycleAndDrop
FIN_PHASE = "0,9,10,11"            # Nop, Collect, TryUnwrapG, FinalizeAgainG
FIN_ALL = "0,1,2,3,4,5,7,8,9,10,11,12"
DROP_ALL = "0,2,3,4"               # Nop, Collect, TryUnwrapG, FinalizeAgainG
ACT_ALL = "0,1,2,3,4,5,6"

Q, T = "quick", "thorough"

PLANS = {}


def plan(prop, tier, runs):
    PLANS[(prop, tier)] = runs


CORE_CFGS_Q = ["full-dbg", "nofin-rel", "min-dbg"]
CORE_CFGS_T = ["full-dbg", "full-rel", "nofin-rel", "nofin-dbg", "min-dbg", "min-rel", "pedantic-dbg"]

core_quick = [R(c, "core", 2, 3) for c in CORE_CFGS_Q] + [
    R("full-rel", "core", 3, 2, depth=12),
    R("full-dbg", "coreh", 2, 2),
]
core_thorough = [R(c, "core", 2, 3) for c in CORE_CFGS_T] + [
    R("full-rel", "core", 3, 2, max_seconds=1500),
    R("nofin-rel", "core", 3, 2, depth=16),
    R("full-dbg", "core", 3, 3, depth=11),
    R("full-rel", "core", 4, 2, depth=10),
    R("full-dbg", "coreh", 2, 3),
    R("pedantic-dbg", "coreh", 2, 2),
]

# C01 no premature reclamation
plan("C01", Q, core_quick + [
    R("full-dbg", "fin", 2, 2, depth=10, fin_menu=FIN_RESURRECT),
    R("full-dbg", "weakfin", 2, 2, depth=8),
    R("full-dbg", "auto", 3, 2, depth=9),
    R("full-dbg", "cleaner", 2, 2, depth=6),
])
plan("C01", T, core_thorough + [
    R("full-dbg", "fin", 2, 2, fin_menu=FIN_RESURRECT),
    R("full-rel", "fin", 2, 3, depth=12, fin_menu=FIN_ALL),
    R("full-rel", "fin", 3, 2, depth=10, fin_menu=FIN_RESURRECT),
    R("full-dbg", "weakfin", 2, 2, depth=11),
    R("full-rel", "weak", 2, 2, depth=0, max_seconds=600),
    R("full-dbg", "auto", 3, 2, depth=12),
    R("full-dbg", "autofin", 3, 2, depth=9),
    R("full-dbg", "cleaner", 2, 2, depth=8, action_menu=ACT_ALL),
])

# C02 completeness of collect_cycles
plan("C02", Q, core_quick + [
    R("full-dbg", "fin", 2, 2, depth=10, fin_menu=FIN_RELEASE),
    R("nofin-rel", "dtor", 2, 2, depth=9),
    R("full-dbg", "weak", 2, 2, depth=8),
])
plan("C02", T, core_thorough + [
    R("full-dbg", "fin", 2, 2, fin_menu=FIN_RELEASE),
    R("full-rel", "fin", 2, 3, depth=12, fin_menu=FIN_ALL),
    R("nofin-rel", "dtor", 2, 2),
    R("full-dbg", "weakfin", 2, 2, depth=11),
    R("full-dbg", "cleaner", 2, 2, depth=8),
])

# C03 drop at most once / free exactly once / right layout (+ layout grid engine, see check)
plan("C03", Q, [
    R("full-dbg", "core", 2, 3),
    R("min-dbg", "core", 2, 3),
    R("full-dbg", "weak", 2, 2, depth=8),
    R("full-dbg", "cyclic", 3, 2, depth=6),
    R("full-dbg", "fin", 2, 2, depth=9, fin_menu=FIN_RELEASE),
])
plan("C03", T, [R(c, "core", 2, 3) for c in CORE_CFGS_T] + [
    R("full-rel", "core", 3, 2, depth=16),
    R("full-rel", "weak", 2, 2, depth=0, max_seconds=600),
    R("full-dbg", "weakfin", 2, 2, depth=11),
    R("full-dbg", "cyclic", 3, 2, depth=8),
    R("full-dbg", "fin", 2, 2, fin_menu=FIN_RELEASE),
    R("full-dbg", "cleaner", 2, 2, depth=8),
])

# C04 Rc equivalence
plan("C04", Q, core_quick + [
    R("full-dbg", "fin", 2, 2, depth=10, fin_menu=FIN_RELEASE),
    R("full-dbg", "weak", 2, 2, depth=8),
])
plan("C04", T, core_thorough + [
    R("full-dbg", "fin", 2, 2, fin_menu=FIN_RELEASE),
    R("full-rel", "fin", 2, 3, depth=12, fin_menu=FIN_ALL),
    R("full-dbg", "weakfin", 2, 2, depth=11),
    R("full-dbg", "cleaner", 2, 2, depth=8),
])

# C05 finalizers only on garbage, once, before drops
plan("C05", Q, [
    R("full-dbg", "fin", 2, 2, depth=10, fin_menu=FIN_RESURRECT),
    R("full-dbg", "fin", 2, 2, depth=10, fin_menu=FIN_RELEASE),
    R("full-dbg", "fin", 3, 2, depth=8, fin_menu=FIN_ALLOC),
    R("full-rel", "fin", 2, 3, depth=9, fin_menu=FIN_ALL),
    R("nofin-rel", "fin", 2, 2, depth=9, fin_menu=FIN_ALL),
    R("full-dbg", "weakfin", 2, 2, depth=8),
    R("full-dbg", "core", 2, 3),
])
plan("C05", T, [
    R("full-dbg", "fin", 2, 2, fin_menu=FIN_RESURRECT),
    R("full-dbg", "fin", 2, 2, fin_menu=FIN_RELEASE),
    R("full-dbg", "fin", 3, 2, depth=11, fin_menu=FIN_ALLOC),
    R("full-dbg", "fin", 2, 2, fin_menu=FIN_PHASE),
    R("full-rel", "fin", 2, 3, depth=13, fin_menu=FIN_ALL),
    R("full-rel", "fin", 3, 2, depth=10, fin_menu=FIN_ALL),
    R("nofin-rel", "fin", 2, 2, depth=12, fin_menu=FIN_ALL),
    R("full-dbg", "weakfin", 2, 2, depth=11),
    R("full-dbg", "dtor", 2, 2),
])

# C06 resurrection (+ deep-chain engine, see check)
plan("C06", Q, [
    R("full-dbg", "fin", 2, 2, depth=11, fin_menu=FIN_RESURRECT),
    R("full-rel", "fin", 2, 3, depth=9, fin_menu=FIN_ALL),
    R("full-dbg", "weakfin", 2, 2, depth=8, fin_menu="0,6", drop_menu="0"),
    R("full-dbg", "fin", 3, 2, depth=8, fin_menu="0,1,3,7,8"),
])
plan("C06", T, [
    R("full-dbg", "fin", 2, 2, fin_menu=FIN_RESURRECT),
    R("full-dbg", "fin", 2, 3, depth=13, fin_menu=FIN_RESURRECT),
    R("full-rel", "fin", 2, 3, depth=13, fin_menu=FIN_ALL),
    R("full-rel", "fin", 3, 2, depth=10, fin_menu="0,1,3,7,8"),
    R("full-dbg", "weakfin", 2, 2, depth=11, fin_menu="0,6", drop_menu="0"),
    R("full-dbg", "weakfin", 3, 2, depth=8, fin_menu="0,6", drop_menu="0"),
])

# C07 callback panics contained at every crash point (fault forking)
plan("C07", Q, [
    R("full-dbg", "core", 2, 3, faults=1, fault_kinds=1),
    R("full-dbg", "fin", 2, 2, depth=8, faults=1, fin_menu="0,1,4,9"),
    R("full-dbg", "dtor", 2, 2, depth=8, faults=1),
    R("full-dbg", "weakfin", 2, 2, depth=7, faults=1),
    R("full-dbg", "cleaner", 2, 2, depth=6, faults=1),
    R("full-dbg", "cyclic", 3, 2, depth=6, faults=1),
    R("full-rel", "core", 2, 3, depth=12, faults=1),
])
plan("C07", T, [
    R("full-dbg", "core", 2, 3, faults=1),
    R("full-rel", "core", 2, 3, faults=2, max_seconds=1200),
    R("nofin-rel", "core", 2, 3, faults=1),
    R("min-dbg", "core", 2, 3, faults=1),
    R("full-rel", "core", 3, 2, depth=11, faults=1),
    R("full-dbg", "fin", 2, 2, depth=11, faults=1, fin_menu="0,1,4,9"),
    R("full-rel", "fin", 2, 2, depth=9, faults=2, fin_menu=FIN_ALL),
    R("full-dbg", "dtor", 2, 2, depth=11, faults=1),
    R("full-dbg", "weakfin", 2, 2, depth=9, faults=1),
    R("full-dbg", "weak", 2, 2, depth=10, faults=1),
    R("full-dbg", "cleaner", 2, 2, depth=8, faults=1, action_menu=ACT_ALL),
    R("full-dbg", "cyclic", 3, 2, depth=8, faults=1),
    R("full-dbg", "autofin", 3, 2, depth=8, faults=1),
])

# C08 Weak::upgrade
plan("C08", Q, [
    R("full-dbg", "weak", 2, 2, depth=9),
    R("full-dbg", "weakfin", 2, 2, depth=8),
    R("full-dbg", "cleaner", 2, 2, depth=6, action_menu="0,3,4"),
    R("full-rel", "weakfin", 3, 2, depth=7),
    R("full-dbg", "cyclic", 3, 2, depth=6),
])
plan("C08", T, [
    R("full-rel", "weak", 2, 2, max_seconds=900),
    R("full-dbg", "weak", 2, 2, depth=12),
    R("full-dbg", "weakfin", 2, 2, depth=11),
    R("full-rel", "weakfin", 3, 2, depth=9),
    R("full-dbg", "cleaner", 2, 2, depth=8, action_menu="0,3,4"),
    R("nofin-rel", "weakfin", 2, 2, depth=10),
    R("full-dbg", "cyclic", 3, 2, depth=8),
])

# C09 weak/strong counts, side record
plan("C09", Q, [
    R("full-dbg", "weak", 1, 2, w=3),
    R("full-dbg", "weak", 2, 2, depth=9),
    R("full-dbg", "weakfin", 2, 2, depth=8),
    R("full-dbg", "cyclic", 3, 2, depth=6),
])
plan("C09", T, [
    R("full-dbg", "weak", 1, 3, w=3),
    R("full-rel", "weak", 2, 2, max_seconds=900),
    R("full-dbg", "weak", 2, 2, depth=12, w=3),
    R("full-dbg", "weakfin", 2, 2, depth=11),
    R("nofin-rel", "weak", 2, 2, depth=11),
    R("full-dbg", "cyclic", 3, 2, depth=8),
    R("full-dbg", "cleaner", 2, 2, depth=8),
])

# C10 cleaning actions
plan("C10", Q, [
    R("full-dbg", "cleaner", 2, 2, depth=7, action_menu="0,1,5"),
    R("full-dbg", "cleaner", 2, 2, depth=6, action_menu=ACT_ALL, c=3, max_actions=3),
    R("nofin-rel", "cleaner", 2, 2, depth=6),
])
plan("C10", T, [
    R("full-dbg", "cleaner", 2, 2, depth=10, action_menu="0,1,5"),
    R("full-rel", "cleaner", 2, 2, depth=9, action_menu=ACT_ALL, c=3, max_actions=3),
    R("full-dbg", "cleaner", 2, 3, depth=8, action_menu=ACT_ALL),
    R("nofin-rel", "cleaner", 2, 2, depth=9),
    R("full-dbg", "cleaner", 1, 2, action_menu="0,5", c=3, max_actions=3),
])

# C11 introspection counters
plan("C11", Q, core_quick + [
    R("full-dbg", "auto", 3, 2, depth=9),
    R("full-dbg", "fin", 2, 2, depth=9, fin_menu=FIN_RELEASE),
    R("full-dbg", "weak", 2, 2, depth=8),
])
plan("C11", T, core_thorough + [
    R("full-dbg", "auto", 3, 2, depth=12),
    R("full-dbg", "fin", 2, 2, fin_menu=FIN_RELEASE),
    R("full-dbg", "weakfin", 2, 2, depth=11),
    R("full-dbg", "cleaner", 2, 2, depth=8),
])

# C12 phases observable, collections never nest
plan("C12", Q, [
    R("full-dbg", "fin", 2, 2, depth=10, fin_menu=FIN_PHASE),
    R("full-dbg", "dtor", 2, 2, depth=10),
    R("full-dbg", "cleaner", 2, 2, depth=6, action_menu="0,2,6"),
    R("full-dbg", "autofin", 3, 2, depth=8),
    R("full-dbg", "core", 2, 3),
])
plan("C12", T, [
    R("full-dbg", "fin", 2, 2, fin_menu=FIN_PHASE),
    R("full-dbg", "dtor", 2, 2),
    R("full-rel", "fin", 2, 3, depth=12, fin_menu=FIN_ALL),
    R("full-dbg", "cleaner", 2, 2, depth=9, action_menu="0,2,6"),
    R("full-dbg", "autofin", 3, 2, depth=10),
    R("nofin-rel", "dtor", 2, 2),
])

# C13 try_unwrap (+ layout grid engine)
plan("C13", Q, [
    R("full-dbg", "weak", 2, 2, depth=9),
    R("full-dbg", "weakfin", 2, 2, depth=8),
    R("full-dbg", "cyclic", 3, 2, depth=6),
    R("min-dbg", "weak", 2, 3, depth=9),
])
plan("C13", T, [
    R("full-rel", "weak", 2, 2, max_seconds=900),
    R("full-dbg", "weakfin", 2, 2, depth=11),
    R("full-dbg", "cyclic", 3, 2, depth=8),
    R("min-dbg", "weak", 2, 3),
    R("nofin-rel", "weak", 2, 2, depth=11),
])

# C14 new_cyclic
plan("C14", Q, [
    R("full-dbg", "cyclic", 3, 2, depth=7),
    R("full-dbg", "cyclic", 3, 2, depth=6, faults=1),
    R("full-rel", "cyclic", 2, 2, depth=9),
])
plan("C14", T, [
    R("full-dbg", "cyclic", 3, 2, depth=9),
    R("full-dbg", "cyclic", 3, 2, depth=8, faults=1),
    R("full-rel", "cyclic", 2, 2, max_seconds=900),
    R("nofin-rel", "cyclic", 3, 2, depth=8, faults=1),
])

# C16 saturation
plan("C16", Q, [
    R("full-dbg", "sat", 1, 2, depth=5, sat_k=1),
    R("full-rel", "sat", 2, 2, depth=5, sat_k=1),
])
plan("C16", T, [
    R("full-dbg", "sat", 1, 2, depth=7, sat_k=2),
    R("full-rel", "sat", 2, 2, depth=7, sat_k=2),
    R("nofin-rel", "sat", 1, 2, depth=6, sat_k=1),
])

# C20a address stability / ptr_eq (the forwarding impls are a separate enumeration engine)
plan("C20", Q, [
    R("full-dbg", "core", 2, 3),
    R("full-rel", "core", 3, 2, depth=11),
])
plan("C20", T, [
    R("full-dbg", "core", 2, 3),
    R("full-rel", "core", 3, 2, depth=16),
    R("full-dbg", "weak", 2, 2, depth=10),
])
